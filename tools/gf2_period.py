#!/usr/bin/env python3
"""Offline checker for C07.

Input: JSON {type: {"n": n, "cols": [hex of T·e_i as little-endian bytes]}} with
the transition matrices OBSERVED from real single steps. For each matrix:
  * Krylov sequence u·T^k·v (k < 2n) -> Berlekamp–Massey -> minimal polynomial f
  * required: deg f = n, f(0) = 1, x^(2^n) = x (mod f), and x^((2^n-1)/p) != 1
    (mod f) for every prime p | 2^n-1   <=>   f primitive   <=>   T permutes the
    non-zero states in ONE cycle of length 2^n-1.
The prime factors of 2^n-1 (Fermat-number factorisations) are re-multiplied and
Miller–Rabin tested here, so the table is not trusted.
Output (last line): JSON {"types": {...}, "factorisation_checked": true}.
"""
import json
import random
import sys

FERMAT_FACTORS = {
    1: [3], 2: [5], 4: [17], 8: [257], 16: [65537], 32: [641, 6700417],
    64: [274177, 67280421310721],
    128: [59649589127497217, 5704689200685129054721],
    256: [1238926361552897, 93461639715357977769163558199606896584051237541638188580280321],
}


def is_probable_prime(n, rounds=40):
    if n < 2:
        return False
    for p in (2, 3, 5, 7, 11, 13, 17, 19, 23, 29, 31, 37):
        if n % p == 0:
            return n == p
    d, s = n - 1, 0
    while d % 2 == 0:
        d //= 2
        s += 1
    rng = random.Random(12345)
    for _ in range(rounds):
        a = rng.randrange(2, n - 1)
        x = pow(a, d, n)
        if x in (1, n - 1):
            continue
        for _ in range(s - 1):
            x = x * x % n
            if x == n - 1:
                break
        else:
            return False
    return True


def prime_factors_of_mersenne(n):
    """2^n - 1 for n a power of two = product of 2^(2^k)+1, k < log2 n"""
    primes = []
    k = 1
    while k < n:
        primes += FERMAT_FACTORS[k]
        k *= 2
    prod = 1
    for p in primes:
        prod *= p
        if not is_probable_prime(p):
            raise ValueError("factor table: %d is not prime" % p)
    if prod != (1 << n) - 1:
        raise ValueError("factor table does not multiply to 2^%d-1" % n)
    return primes


# ---- GF(2)[x] arithmetic on Python ints (bit i = coefficient of x^i)

def pmod(a, f):
    df = f.bit_length() - 1
    while a.bit_length() - 1 >= df and a:
        a ^= f << (a.bit_length() - 1 - df)
    return a


def pmulmod(a, b, f):
    df = f.bit_length() - 1
    r = 0
    while b:
        if b & 1:
            r ^= a
        b >>= 1
        a <<= 1
        if (a >> df) & 1:
            a ^= f
    return r


def ppowmod_x(e, f):
    """x^e mod f"""
    result = 1
    base = pmod(2, f)
    while e:
        if e & 1:
            result = pmulmod(result, base, f)
        base = pmulmod(base, base, f)
        e >>= 1
    return result


def berlekamp_massey(seq):
    """minimal connection polynomial C (C[0]=1) of a GF(2) sequence; returns (C as int, L)"""
    c, b = 1, 1
    L, m = 0, 1
    for n_, s in enumerate(seq):
        d = s
        # d = s_n + sum_{i=1..L} c_i s_{n-i}
        cc = c >> 1
        i = 1
        while cc:
            if cc & 1:
                d ^= seq[n_ - i]
            cc >>= 1
            i += 1
        if d == 0:
            m += 1
        elif 2 * L <= n_:
            t = c
            c ^= b << m
            L = n_ + 1 - L
            b = t
            m = 1
        else:
            c ^= b << m
            m += 1
    return c, L


def check_matrix(n, cols):
    T = [int.from_bytes(bytes.fromhex(h), "little") for h in cols]
    assert len(T) == n

    def apply(v):
        r = 0
        i = 0
        while v:
            if v & 1:
                r ^= T[i]
            v >>= 1
            i += 1
        return r

    rng = random.Random(2024)
    best = None
    checks = 0
    for attempt in range(4):
        u = rng.getrandbits(n) | 1
        v = rng.getrandbits(n) | 1
        seq = []
        x = v
        for _ in range(2 * n):
            seq.append(bin(u & x).count("1") & 1)
            x = apply(x)
        c, L = berlekamp_massey(seq)
        checks += 2 * n
        if best is None or L > best[1]:
            best = (c, L)
        if L == n:
            break
    c, L = best
    # connection polynomial C(x) = 1 + c1 x + ... + cL x^L; characteristic polynomial is its reciprocal
    f = 0
    for i in range(L + 1):
        if (c >> i) & 1:
            f |= 1 << (L - i)
    out = {"n": n, "minimal_polynomial_degree": L, "checks": checks}
    if L != n:
        out.update(primitive=False, reason="minimal polynomial of the observed matrix has degree %d < %d" % (L, n))
        return out
    if not (f & 1):
        out.update(primitive=False, reason="f(0) = 0: the observed step is not invertible")
        return out
    out["minimal_polynomial_hex"] = hex(f)
    if ppowmod_x(1 << n, f) != 2:
        out.update(primitive=False, reason="x^(2^n) != x (mod f): f is not irreducible")
        return out
    N = (1 << n) - 1
    for p in prime_factors_of_mersenne(n):
        out["checks"] += 1
        if ppowmod_x(N // p, f) == 1:
            out.update(primitive=False, reason="order of x divides (2^n-1)/%d: cycle shorter than 2^n-1" % p)
            return out
    out.update(primitive=True, reason="minimal polynomial has degree n and is primitive")
    return out


def main():
    try:
        mats = json.load(open(sys.argv[1]))
        res = {}
        for name, m in sorted(mats.items()):
            res[name] = check_matrix(m["n"], m["cols"])
        print(json.dumps({"types": res, "factorisation_checked": True}))
    except Exception as e:  # harness error, never a verdict about the code
        print(json.dumps({"error": "gf2_period.py: %r" % (e,)}))


if __name__ == "__main__":
    main()
