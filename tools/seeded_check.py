#!/usr/bin/env python3
"""Run checks against a seeded change: apply it to /repo, run ./check for the
given properties, undo it straight afterwards. Appends to seeded/<id>/runs.json.
usage: seeded_check.py <id> [Cxx ...]   (default: the property the change targets)"""
import json, os, subprocess, sys, time
HERE = os.path.dirname(os.path.dirname(os.path.abspath(__file__)))
mid = sys.argv[1]
import re
props = sys.argv[2:] or [re.search(r"C\d\d", mid).group(0)]
tier = os.environ.get("SEEDED_TIER", "quick")
d = os.path.join(HERE, "seeded", mid)
assert subprocess.run(["git", "-C", "/repo", "status", "--porcelain", "--untracked-files=no"], stdout=subprocess.PIPE, text=True).stdout.strip() == "", "/repo not clean"
subprocess.run(["git", "-C", "/repo", "apply", os.path.join(d, "patch.diff")], check=True)
out = []
try:
    for p in props:
        t0 = time.time()
        r = subprocess.run([os.path.join(HERE, "check"), p, "--tier", tier], cwd=HERE, stdout=subprocess.PIPE, stderr=subprocess.STDOUT, text=True)
        sigs = [l.strip()[len("signature: "):] for l in r.stdout.splitlines() if l.strip().startswith("signature:")]
        inc = [l for l in r.stdout.splitlines() if l.startswith("INCONCLUSIVE")]
        out.append({"property": p, "tier": tier, "exit": r.returncode, "signatures": sigs, "inconclusive": inc[:3], "wall_s": round(time.time() - t0, 1)})
        print(mid, p, "exit", r.returncode, sigs[:3], inc[:1])
finally:
    subprocess.run(["git", "-C", "/repo", "checkout", "--", "."], check=True)
path = os.path.join(d, "runs.json")
prev = json.load(open(path)) if os.path.exists(path) else []
json.dump(prev + out, open(path, "w"), indent=1)
