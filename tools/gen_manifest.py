#!/usr/bin/env python3
"""Regenerates /verif/MANIFEST.json from the table in ./check (single source of truth)."""
import importlib.machinery, importlib.util, json, os, subprocess
HERE = os.path.dirname(os.path.dirname(os.path.abspath(__file__)))
loader = importlib.machinery.SourceFileLoader("check", os.path.join(HERE, "check"))
spec = importlib.util.spec_from_loader("check", loader)
check = importlib.util.module_from_spec(spec)
loader.exec_module(check)

LEVEL_TEXT = {
 "C01": "Every native output (and state image) of tens of thousands of seeded runs is compared in lock-step with an independent model of the published reference code; exploration is the honest level for a 2^64..2^512 input space, reach comes from structured seed classes and long runs.",
 "C02": "Every keystream word over more than two table cycles per seed, thousands of seeds, through both the RNG and the core's generate(), against a naive model of the paper.",
 "C03": "Every word of every block for thousands of seeds against a straight port of rand.c/isaac64.c, plus the unseeded-reference check for seed_from_u64(0).",
 "C04": "Every output and state image against Marsaglia's four-line step for tens of thousands of seeds.",
 "C05": "History checker: hundreds of thousands of random interleavings of next_u32/next_u64/fill_bytes from every buffer index are checked word-for-word against a projection model over the twin's native stream, with conservation of words consumed.",
 "C06": "jump()/long_jump() are compared with T^(2^(n/2)) and T^(2^(3n/4)) of the transition matrix observed from the real step on all n basis states and thousands of other states; with the monitored linearity this extends to every state.",
 "C07": "The observed transition matrix of every linear type is decided offline (minimal polynomial of degree n and primitive <=> one cycle of length 2^n-1); bounded Brent/injectivity monitors run on the real step. Level 'other': an algebraic decision about observed behaviour, conditional on observed linearity.",
 "C08": "Invariant on every constructor result over zero seeds, every single-byte seed, special u64 arguments (incl. the SplitMix pre-image of zero) and sources with leading zero blocks.",
 "C09": "Constructor differential against expansion models with an instrumented source; the position at which the fallible source starts failing is enumerated exhaustively for every case (0..calls+1).",
 "C10": "Pair monitor over clones, shifted read positions, near seeds and serde-crafted single-field perturbations: equal => identical futures, clone => equal, futures differ => unequal.",
 "C11": "Snapshot at every ISAAC buffer index and both half-used states (forced), two serde formats, original/twin/restored compared over continuations crossing refills.",
 "C12": "Lock-step with a model of the documented Jitterentropy procedure on scripted timers of ten classes: value, number of timer readings and hooked pool after every call.",
 "C13": "Result classifier: every documented failure condition is recomputed from the 1601 readings of scripts aimed at each threshold from both sides; tolerant where the statement is ambiguous.",
 "C14": "Every public operation under catch_unwind in an overflow-checked build over hostile inputs (fill lengths, zero seeds, failing sources, timer deltas at the i32 limits); thorough adds ASan and Miri runs of the same workload.",
 "C15": "Through the hooks every pool-update step is observed to be affine on >=10^5 executions and of rank 64; direct collision sets over dense neighbourhoods back this up without the algebra.",
 "C16": "Ledger over original and clones on one shared scripted timer: per-call timer reads, half attribution via the hooked pool, and values against the model.",
 "C17": "Differential formatting of instances with different secrets at the same read position, plus a scan of all numeric tokens against thousands of secret words per instance.",
 "C18": "One corpus replayed in all 8 configurations of the property's quantifier; per-case digests diffed offline. Exhaustive over configurations, exploration over the corpus.",
 "C19": "Per-generator history equality under single-thread interleavings, scripted multi-thread turns with migration, and free-running stress on all cores; Send/Sync probed at run time; thorough adds TSan and Miri.",
}
TECH = {
 "C01": "runtime monitor: lock-step reference-model oracle", "C02": "runtime monitor: lock-step reference-model oracle",
 "C03": "runtime monitor: lock-step reference-model oracle", "C04": "runtime monitor: lock-step reference-model oracle",
 "C05": "runtime monitor: history checker against a projection model (twin stream)",
 "C06": "runtime monitor: prediction from the observed transition matrix + linearity monitor",
 "C07": "offline checker over recorded single-step observations (GF(2) minimal polynomial primitivity) + bounded cycle monitors",
 "C08": "runtime monitor: invariant on constructor results", "C09": "runtime monitor: constructor differential + exhaustive fault-position enumeration with an instrumented source",
 "C10": "runtime monitor: pair/congruence checker", "C11": "runtime monitor: snapshot/restore twin checker",
 "C12": "runtime monitor: lock-step reference model on scripted call-counting timers",
 "C13": "runtime monitor: result classifier over recorded timer readings",
 "C14": "runtime monitor: catch_unwind/panic-hook in overflow-checked build; ASan + Miri (thorough)",
 "C15": "runtime monitor: invariant at cfg(rngs_verif) hooks (affinity, rank, collision sets)",
 "C16": "runtime monitor: at-most-once ledger / timer-call accounting over recorded history",
 "C17": "runtime monitor: differential Debug formatting + leak scan",
 "C18": "offline checker over recorded per-configuration digests (8 builds)",
 "C19": "runtime monitor: per-generator history equality under thread schedules; TSan + Miri (thorough)",
}
checks = []
for pid, meta in check.PROPS.items():
    checks.append({
        "property_id": pid,
        "quick_cmd": "./check %s --tier quick" % pid,
        "thorough_cmd": "./check %s --tier thorough" % pid,
        "evidence_file": "/verif/evidence/%s.json" % pid,
        "replay_cmd_template": "./check %s --replay {path}" % pid,
        "engine": "harness",
        "level_claimed": {"category": meta["level"], "text": LEVEL_TEXT[pid], "design_ref": "DESIGN.md " + meta["design"]},
        "level_note": "; ".join(meta["assumptions"]),
        "technique": TECH[pid],
    })
hooks_commit = subprocess.run(["git", "-C", "/repo", "log", "--format=%H", "--grep", "^verif hooks"], stdout=subprocess.PIPE, text=True).stdout.split()
manifest = {
    "version": 1,
    "setup_cmd": "./setup.sh",
    "hooks": {
        "guard": "rngs_verif",
        "enable": "RUSTFLAGS=\"--cfg rngs_verif\" (passed by ./check to every monitor build; the C18 digest builds run with the guard off)",
        "baseline_off_cmd": "cd /repo && cargo test --workspace --no-fail-fast --offline",
        "source_commits": hooks_commit,
        "add_only": True,
    },
    "engines": [
        {"name": "harness", "path": "/verif/harness", "serves_properties": sorted(check.PROPS), "kind_free_text": "Rust crate with path dependencies on /repo/rand_*: independent reference models, workload generators, one monitor per property (bin monitor), C18 corpus replayer (bin digest); driven by the python3 CLI ./check which builds it from the current tree, applies known_findings.json and writes evidence"},
        {"name": "gf2_period", "path": "/verif/tools/gf2_period.py", "serves_properties": ["C07"], "kind_free_text": "offline checker: minimal polynomial + primitivity of the observed transition matrices"},
        {"name": "cfgdiff", "path": "/verif/tools/cfgdiff.py", "serves_properties": ["C18"], "kind_free_text": "offline checker: diff of per-case digests across build configurations"},
    ],
    "checks": checks,
    "not_applicable": [],
    "notes": "All properties are decided by runtime monitoring (see DESIGN.md). Verdicts are three-valued: exit 0 held, exit 1 VIOLATION, exit 2 INCONCLUSIVE (never a violation). VERIF_SEED selects the random workload; VERIF_BUDGET (seconds, thorough tier) and VERIF_QUICK_SCALE tune its size. known_findings.json lists two genuine defects, both repaired by fix: commits in /repo.",
}
json.dump(manifest, open(os.path.join(HERE, "MANIFEST.json"), "w"), indent=1)
print("wrote MANIFEST.json with", len(checks), "checks")
