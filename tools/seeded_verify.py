#!/usr/bin/env python3
"""Confirm a seeded change in a scratch worktree of /repo:
  1. patch applies to /repo HEAD, 2. the existing test suite passes with it,
  3. the demonstration fails with it, 4. and passes without it.
usage: seeded_verify.py <id> <dir with patch.diff + demo.rs> <crate> <test name> [--features F] [--two-config "<args1>|<args2>"]
Writes <dir>/verify.json; removes the worktree and its build output."""
import json, os, shutil, subprocess, sys

def sh(cmd, cwd, env=None, timeout=1800):
    p = subprocess.run(cmd, cwd=cwd, shell=True, stdout=subprocess.PIPE, stderr=subprocess.STDOUT, text=True, timeout=timeout,
                       env=dict(os.environ, CARGO_NET_OFFLINE="true", **(env or {})))
    return p.returncode, p.stdout

def main():
    mid, src, crate, test = sys.argv[1:5]
    feats, two, pre, demo_cmd = "", None, None, None
    a = sys.argv[5:]
    while a:
        if a[0] == "--features": feats += " --features " + a[1]; a = a[2:]
        elif a[0] == "--extra": feats += " " + a[1]; a = a[2:]
        elif a[0] == "--pre": pre = a[1]; a = a[2:]
        elif a[0] == "--demo-cmd": demo_cmd = a[1]; a = a[2:]
        elif a[0] == "--two-config": two = a[1].split("|"); a = a[2:]
        else: raise SystemExit("bad arg " + a[0])
    wt = "/tmp/sw/" + mid
    res = {"id": mid, "crate": crate, "demo_test": test}
    sh("git -C /repo worktree remove --force %s; rm -rf %s" % (wt, wt), "/tmp")
    rc, out = sh("git -C /repo worktree add -q --detach %s HEAD && cp /repo/Cargo.lock %s/" % (wt, wt), "/tmp")
    assert rc == 0, out
    try:
        rc, out = sh("git apply %s/patch.diff" % src, wt)
        res["patch_applies"] = rc == 0
        if rc != 0:
            res["error"] = out[-500:]; return res
        rc, out = sh("cargo test --workspace --no-fail-fast --offline 2>&1 | grep -E '^test result|FAILED|error' ", wt)
        res["existing_tests_pass_with_change"] = ("FAILED" not in out and "error" not in out and out.count("test result: ok") >= 10)
        res["existing_tests_summary"] = out.strip().splitlines()[-14:]
        os.makedirs("%s/%s/tests" % (wt, crate), exist_ok=True)
        demo_dst = "%s/%s/tests/%s.rs" % (wt, crate, test)
        shutil.copy(src + "/demo.rs", demo_dst)
        if pre:
            rc, out = sh(pre, wt)
            assert rc == 0, out
        def demo(tag):
            if demo_cmd:
                return sh(demo_cmd, wt, timeout=3600)
            if two:
                rec = "/tmp/sw/%s.record.%s" % (mid, tag)
                if os.path.exists(rec): os.remove(rec)
                rc1, o1 = sh("cargo test --offline -p %s --test %s %s" % (crate, test, two[0]), wt, env={"C18_RECORD": rec})
                rc2, o2 = sh("cargo test --offline -p %s --test %s %s" % (crate, test, two[1]), wt, env={"C18_RECORD": rec})
                if os.path.exists(rec): os.remove(rec)
                return (rc1 or rc2), (o1[-600:] + "\n---\n" + o2[-900:])
            return sh("cargo test --offline -p %s --test %s%s" % (crate, test, feats), wt)
        rc, out = demo("with")
        res["demo_fails_with_change"] = rc != 0 and ("test result: FAILED" in out or "panicked" in out or "error: test failed" in out)
        res["demo_with_change_tail"] = out.strip().splitlines()[-8:]
        rc, out2 = sh("git apply -R --include='rand_*/src/*' %s/patch.diff" % src, wt)
        assert rc == 0, out2
        rc, out = demo("without")
        res["demo_passes_without_change"] = rc == 0
        res["demo_clean_tail"] = out.strip().splitlines()[-4:]
        return res
    finally:
        sh("git -C /repo worktree remove --force %s; rm -rf %s" % (wt, wt), "/tmp")

if __name__ == "__main__":
    r = main()
    r["confirmed"] = all(r.get(k) for k in ("patch_applies", "existing_tests_pass_with_change", "demo_fails_with_change", "demo_passes_without_change"))
    json.dump(r, open(sys.argv[2] + "/verify.json", "w"), indent=1)
    print(r["id"], "CONFIRMED" if r["confirmed"] else "NOT CONFIRMED", {k: v for k, v in r.items() if isinstance(v, bool)})
