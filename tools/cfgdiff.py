"""Offline checker for C18: diff the per-case digests of one corpus across
build configurations. `results` maps configuration name -> list of lines
(`case <n> <type> <ctor> <digest|panic@op:k>` and `values <n> v,v,...`)."""


def parse(lines):
    cases, values = {}, {}
    for l in lines:
        p = l.split(" ")
        if p[0] == "case":
            cases[int(p[1])] = (p[2], p[3], p[4])
        elif p[0] == "values":
            values[int(p[1])] = p[2].split(",") if len(p) > 2 and p[2] else []
    return cases, values


def diff(results):
    names = sorted(results)
    parsed = {n: parse(results[n]) for n in names}
    ref = names[0]
    ref_cases, ref_vals = parsed[ref]
    divergences = []
    comparisons = 0
    coverage = {}
    samples = []
    for idx in sorted(ref_cases):
        ty, ctor, dig = ref_cases[idx]
        coverage["type:" + ty] = coverage.get("type:" + ty, 0) + 1
        coverage["ctor:" + ctor] = coverage.get("ctor:" + ctor, 0) + 1
        outcomes = {}
        for n in names:
            c = parsed[n][0].get(idx)
            comparisons += 1
            outcomes.setdefault(c[2] if c else "<missing>", []).append(n)
        if len(outcomes) > 1:
            kinds = sorted(("panic" if k.startswith("panic") else "missing" if k.startswith("<") else "value") for k in outcomes)
            sig = "%s:outcome_differs_between_configurations:%s" % (ty, "+".join(sorted(set(kinds))))
            d = {"signature": sig, "case": idx, "type": ty, "constructor": ctor, "outcomes": outcomes}
            # first diverging value among sampled cases
            if idx in ref_vals:
                for n in names[1:]:
                    ov = parsed[n][1].get(idx, [])
                    for k, (a, b) in enumerate(zip(ref_vals[idx], ov)):
                        if a != b:
                            d["first_diverging_value_index"] = k
                            d["values"] = {ref: a, n: b}
                            break
            divergences.append(d)
        elif len(samples) < 4 and idx % 97 == 0:
            samples.append({"case": idx, "type": ty, "constructor": ctor, "digest_in_all_configurations": dig,
                            "first_values": ref_vals.get(idx, [])[:6]})
    for n in names:
        if len(parsed[n][0]) != len(ref_cases):
            divergences.append({"signature": "corpus_length_differs", "case": -1, "type": "-", "constructor": "-",
                                "outcomes": {n: len(parsed[n][0]), ref: len(ref_cases)}})
    coverage["configurations"] = len(names)
    coverage["panicking_cases_in_reference_configuration"] = sum(1 for c in ref_cases.values() if c[2].startswith("panic"))
    return {"divergences": divergences, "comparisons": comparisons, "cases_compared": len(ref_cases),
            "coverage": coverage, "samples": samples}
