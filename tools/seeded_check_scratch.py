#!/usr/bin/env python3
"""Like seeded_check.py but without touching /repo: the change is applied to a
scratch worktree and the checks are pointed at it (VERIF_REPO), with their own
build directories (VERIF_TARGET_TAG=scratch). For use while something else needs
/repo unchanged. usage: seeded_check_scratch.py <id> [Cxx ...]"""
import json, os, re, subprocess, sys, time
HERE = os.path.dirname(os.path.dirname(os.path.abspath(__file__)))
mid = sys.argv[1]
props = sys.argv[2:] or [re.search(r"C\d\d", mid).group(0)]
tier = os.environ.get("SEEDED_TIER", "quick")
d = os.path.join(HERE, "seeded", mid)
wt = "/tmp/sw/scratch_" + mid
subprocess.run("git -C /repo worktree remove --force %s 2>/dev/null; rm -rf %s; git -C /repo worktree add -q --detach %s HEAD && cp /repo/Cargo.lock %s/" % (wt, wt, wt, wt), shell=True, check=True)
subprocess.run(["git", "-C", wt, "apply", os.path.join(d, "patch.diff")], check=True)
out = []
try:
    for p in props:
        t0 = time.time()
        env = dict(os.environ, VERIF_REPO=wt, VERIF_TARGET_TAG=os.environ.get("VERIF_TARGET_TAG", "scratch"))
        r = subprocess.run([os.path.join(HERE, "check"), p, "--tier", tier], cwd=HERE, stdout=subprocess.PIPE, stderr=subprocess.STDOUT, text=True, env=env)
        sigs = [l.strip()[len("signature: "):] for l in r.stdout.splitlines() if l.strip().startswith("signature:")]
        inc = [l for l in r.stdout.splitlines() if l.startswith("INCONCLUSIVE")]
        out.append({"property": p, "tier": tier, "exit": r.returncode, "signatures": sigs, "inconclusive": inc[:3], "wall_s": round(time.time() - t0, 1), "how": "scratch copy via VERIF_REPO"})
        print(mid, p, "exit", r.returncode, sigs[:3], inc[:1])
finally:
    subprocess.run("git -C /repo worktree remove --force %s; rm -rf %s" % (wt, wt), shell=True)
path = os.path.join(d, "runs.json")
prev = json.load(open(path)) if os.path.exists(path) else []
json.dump(prev + out, open(path, "w"), indent=1)
