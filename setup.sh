#!/bin/sh
# Build the framework from files on disk only (offline). Idempotent.
set -e
cd "$(dirname "$0")/harness"
export CARGO_NET_OFFLINE=true
[ -f Cargo.lock ] || cp /repo/Cargo.lock Cargo.lock
RUSTFLAGS="--cfg rngs_verif" cargo build --offline --profile checked --bin monitor
# the same monitor without overflow checks / debug assertions, and with rand_jitter's log feature
RUSTFLAGS="--cfg rngs_verif" cargo build --offline --profile o3n --bin monitor
RUSTFLAGS="--cfg rngs_verif" cargo build --offline --profile checked --bin monitor --features jlog --target-dir target-jlog
RUSTFLAGS="--cfg rngs_verif -C target-cpu=native" cargo build --offline --profile checked --bin monitor --target-dir target-native
# pre-build the eight C18 configurations (the check rebuilds what changed)
for prof in o0c o0n o3c o3n; do
  RUSTFLAGS="" cargo build --offline --profile $prof --bin digest --target-dir target-c18-$prof-serde &
  RUSTFLAGS="" cargo build --offline --profile $prof --bin digest --no-default-features --target-dir target-c18-$prof-noserde &
  wait
done
echo "setup done"
