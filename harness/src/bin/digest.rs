//! C18: replay one fixed corpus (a function of the seed only) and print one
//! line per case: `case <n> <type> <constructor> <digest | panic@op:k>`; for
//! sampled cases also the first values. Self-contained and serde-free so that
//! it builds identically in every configuration (profiles x serde on/off).
//!
//! usage: digest <seed> <cases> [first_case]

use rand_core::{RngCore, SeedableRng};
use std::panic::{catch_unwind, AssertUnwindSafe};
use std::sync::atomic::{AtomicUsize, Ordering};
use std::sync::Arc;

struct P(u64);
impl P {
    fn new(seed: u64, i: u64) -> P {
        let mut p = P(seed ^ 0x243f6a8885a308d3);
        p.0 = p.0.wrapping_add(i.wrapping_mul(0x9e3779b97f4a7c15));
        p.u();
        p
    }
    fn u(&mut self) -> u64 {
        self.0 = self.0.wrapping_add(0x9e3779b97f4a7c15);
        let mut z = self.0;
        z = (z ^ (z >> 30)).wrapping_mul(0xbf58476d1ce4e5b9);
        z = (z ^ (z >> 27)).wrapping_mul(0x94d049bb133111eb);
        z ^ (z >> 31)
    }
    fn below(&mut self, n: u64) -> u64 {
        self.u() % n
    }
}

struct H(u64);
impl H {
    fn b(&mut self, bs: &[u8]) {
        for &x in bs {
            self.0 ^= x as u64;
            self.0 = self.0.wrapping_mul(0x100000001b3);
        }
        self.0 ^= 0xff;
        self.0 = self.0.wrapping_mul(0x100000001b3);
    }
}

fn seed_bytes(p: &mut P, len: usize) -> Vec<u8> {
    let mut s = vec![0u8; len];
    match p.below(8) {
        0 => {}
        1 => s[p.below(len as u64) as usize] = 1 << p.below(8),
        2 => s.iter_mut().for_each(|b| *b = 0xff),
        3 => {
            for w in s.chunks_mut(4) {
                w[3] = 0x80;
            }
        }
        _ => {
            for b in s.iter_mut() {
                *b = p.u() as u8;
            }
        }
    }
    s
}

/// trivial source RNG for from_rng: k zero blocks, then a counter pattern
struct Src {
    pos: u64,
    zeros: u64,
    salt: u64,
}
impl RngCore for Src {
    fn next_u32(&mut self) -> u32 {
        let mut b = [0u8; 4];
        self.fill_bytes(&mut b);
        u32::from_le_bytes(b)
    }
    fn next_u64(&mut self) -> u64 {
        let mut b = [0u8; 8];
        self.fill_bytes(&mut b);
        u64::from_le_bytes(b)
    }
    fn fill_bytes(&mut self, dest: &mut [u8]) {
        for d in dest.iter_mut() {
            *d = if self.pos < self.zeros { 0 } else { (self.pos.wrapping_mul(self.salt | 1) >> 7) as u8 ^ 0x5a };
            self.pos += 1;
        }
    }
}

fn fill_len(p: &mut P, block: usize) -> usize {
    // rarely a very long request (more than 2^16 words of any generator)
    if p.below(400) == 0 {
        return 270_000 + p.below(64) as usize;
    }
    // whole blocks and a little more (bulk paths), also from an exhausted buffer
    if p.below(12) == 0 {
        return block * (1 + p.below(3) as usize) + [0usize, 0, 1, 8, 952][p.below(5) as usize];
    }
    match p.below(8) {
        0..=3 => p.below(18) as usize,
        4 => block - 1 + p.below(3) as usize,
        5 => 2 * block + p.below(9) as usize,
        6 => 0,
        _ => p.below(300) as usize,
    }
}

thread_local! {
    static OFFSET: std::cell::Cell<usize> = std::cell::Cell::new(1);
}

fn run_seeded<R: RngCore + SeedableRng + Clone>(
    p: &mut P,
    seed_len: usize,
    block: usize,
    jump: Option<(fn(&mut R), fn(&mut R))>,
    sample: bool,
) -> (String, String, Vec<u64>) {
    let how = p.below(4);
    let mut first = Vec::new();
    let mut g: R = match how {
        0 | 1 => {
            let s = seed_bytes(p, seed_len);
            let mut seed = R::Seed::default();
            seed.as_mut().copy_from_slice(&s);
            R::from_seed(seed)
        }
        2 => {
            let x = match p.below(4) { 0 => 0, 1 => u64::MAX, 2 => 1 << p.below(64), _ => p.u() };
            R::seed_from_u64(x)
        }
        _ => {
            // leading all-zero blocks: a few, or (rarely) a very long run — a redraw done by
            // recursion instead of a loop needs a stack frame per block in unoptimised builds
            let zeros = if p.below(60) == 0 { 450_000 + p.below(1000) } else { p.below(3) };
            let mut src = Src { pos: 0, zeros: zeros * seed_len as u64, salt: p.u() };
            R::from_rng(&mut src)
        }
    };
    let ctor = ["from_seed", "from_seed", "seed_from_u64", "from_rng"][how as usize].to_string();
    let mut h = H(0xcbf29ce484222325);
    let n_ops = 8 + p.below(40);
    for k in 0..n_ops {
        let op = p.below(12);
        let res = catch_unwind(AssertUnwindSafe(|| match op {
            0..=3 => { let v = g.next_u32(); h.b(&v.to_le_bytes()); v as u64 }
            4..=6 => { let v = g.next_u64(); h.b(&v.to_le_bytes()); v }
            7..=9 => {
                // destinations start at every alignment in turn
                let n = fill_len(p, block);
                let off = OFFSET.with(|c| { let v = c.get(); c.set((v + 3) % 8); v });
                let mut b = vec![0u8; n + 8];
                g.fill_bytes(&mut b[off..off + n]);
                h.b(&b[off..off + n]);
                n as u64
            }
            10 => {
                if let Some((j, lj)) = jump {
                    if p.below(2) == 0 { j(&mut g) } else { lj(&mut g) }
                }
                0
            }
            _ => { let mut c = g.clone(); let v = c.next_u64(); h.b(&v.to_le_bytes()); v }
        }));
        match res {
            Ok(v) => { if sample && first.len() < 64 { first.push(v); } }
            Err(_) => return (ctor, format!("panic@op:{}", k), first),
        }
    }
    (ctor, format!("{:016x}", h.0), first)
}

fn jitter_script(p: &mut P, n: usize) -> Vec<u64> {
    const HUGE: [u64; 8] = [0x7fff_ffff, 0x8000_0000, 0x8000_0001, 0xffff_ffff, 0x1_0000_0000, 0x1_0000_0001, 1 << 63, u64::MAX];
    let class = p.below(8);
    let mut t: u64 = match p.below(3) { 0 => 1, 1 => p.u(), _ => 1_000_000_000 };
    // rarely: a healthy start, then the clock freezes / ticks evenly for more than 2^16
    // measurements (narrow counters of consecutive stuck results), then recovers
    if p.below(60) == 0 {
        let mut v = Vec::new();
        for _ in 0..20 { t = t.wrapping_add(1 + p.below(1 << 12)); v.push(t); }
        let step = if p.below(2) == 0 { 0 } else { 1 + p.below(500) };
        for _ in 0..(3 * 65_540 + 9) { t = t.wrapping_add(step); v.push(t); }
        return v;
    }
    if class == 5 { t = u64::MAX - p.below(4096); }
    let k = 4 + p.below(27);
    let mut v = Vec::with_capacity(n);
    for _ in 0..n {
        let step = match class {
            0 | 5 => 1 + p.below(1 << k),
            1 => 1 + p.below(4),                       // tiny variations / stuck
            2 => 100 * (1 + p.below(50)),              // multiples of 100
            3 => if p.below(6) == 0 { (1 + p.below(1 << 20)).wrapping_neg() } else { 1 + p.below(1 << k) }, // backward
            4 => if p.below(3) == 0 {
                let d = HUGE[p.below(8) as usize].wrapping_add(p.below(3));
                if p.below(2) == 0 { d } else { d.wrapping_neg() }
            } else { 1 + p.below(9) },
            6 => if p.below(40) == 0 { t = 0; 7 } else { 1 + p.below(1 << k) },
            // coarse clock: the reading often does not change between calls
            _ => if p.below(3) == 0 { 1 + p.below(1 << k) } else { 0 },
        };
        t = t.wrapping_add(step);
        v.push(t);
    }
    v
}

// --- solved scripts: the first collection of a fresh generator (pool 0) is made to
// produce a rare word (0, all ones, a zero half). The collected word is affine over
// GF(2) in the delta bits while no measurement is stuck (same construction as
// drive::solve_collection in the monitor library; duplicated because this binary is
// built without it).
fn m_fold(mut pool: u64, t: u64) -> u64 {
    for i in 0..64 {
        let mut lsb = (pool & 1) ^ ((t >> i) & 1);
        for tap in [63u32, 60, 55, 30, 27, 22] { lsb ^= (pool >> tap) & 1; }
        pool = ((pool & !1) | lsb).rotate_left(1);
    }
    pool
}
fn m_stir(pool: u64) -> u64 {
    let c: u64 = 0x6745_2301_efcd_ab89;
    let mut m: u64 = 0x98ba_dcfe_1032_5476;
    for i in 0..64 { if (pool >> i) & 1 == 1 { m ^= c; } m = m.rotate_left(1); }
    pool ^ m
}
/// (word, any stuck) of one collection from pool 0 over the deltas
fn m_collect(deltas: &[u32]) -> (u64, bool) {
    let (mut pool, mut d1, mut d2, mut any_stuck) = (0u64, 0i32, 0i32, false);
    for (k, &d) in deltas.iter().enumerate() {
        let d = d as i32;
        pool = m_fold(pool, d as i64 as u64);
        let e2 = d1.wrapping_sub(d);
        let e3 = e2.wrapping_sub(d2);
        d1 = d; d2 = e2;
        let stuck = d == 0 || e2 == 0 || e3 == 0;
        let _ = k; // (the priming measurement is mixed in like the others; only its verdict is ignored)
        if stuck { any_stuck = true; } else { pool = pool.rotate_left(7); }
    }
    (m_stir(pool), any_stuck)
}
fn solved_script(p: &mut P, rounds: usize, want: u64, mask: u64) -> Option<Vec<u64>> {
    let n = rounds + 1;
    for _ in 0..12 {
        let base: Vec<u32> = (0..n).map(|_| 1024 + p.below(1 << 21) as u32).collect();
        let (w0, s0) = m_collect(&base);
        if s0 { continue; }
        let vars: Vec<(usize, u32)> = (0..n.min(4)).flat_map(|k| (0..31u32).map(move |b| (n - 1 - k, b))).collect();
        let cols: Vec<u64> = vars.iter().map(|&(i, b)| { let mut d = base.clone(); d[i] ^= 1 << b; (m_collect(&d).0 ^ w0) & mask }).collect();
        let rhs = (w0 ^ want) & mask;
        let mut rows: Vec<(u128, bool)> = (0..64).map(|e| {
            let mut m = 0u128;
            for (v, c) in cols.iter().enumerate() { if (c >> e) & 1 == 1 { m |= 1u128 << v; } }
            (m, (rhs >> e) & 1 == 1)
        }).collect();
        let mut piv: Vec<usize> = Vec::new();
        for v in 0..vars.len() {
            let rank = piv.len();
            if rank == 64 { break; }
            if let Some(pr) = (rank..64).find(|&r| (rows[r].0 >> v) & 1 == 1) {
                rows.swap(rank, pr);
                let pv = rows[rank];
                for r in 0..64 { if r != rank && (rows[r].0 >> v) & 1 == 1 { rows[r].0 ^= pv.0; rows[r].1 ^= pv.1; } }
                piv.push(v);
            }
        }
        if rows[piv.len()..].iter().any(|r| r.0 == 0 && r.1) { continue; }
        let mut x: u128 = 0;
        for (r, &v) in piv.iter().enumerate() { if rows[r].1 { x |= 1u128 << v; } } // free variables = 0
        let mut d = base.clone();
        for (v, &(i, b)) in vars.iter().enumerate() { if (x >> v) & 1 == 1 { d[i] ^= 1 << b; } }
        let (w, st) = m_collect(&d);
        if st || d.iter().any(|&k| k == 0) || (w ^ want) & mask != 0 { continue; }
        let mut t = 1_000_000u64 + p.below(1 << 30);
        let mut v = vec![t];
        for &k in &d { v.push(t + 1); t += k as u64; v.push(t); v.push(t + 2); }
        return Some(v);
    }
    None
}

fn run_jitter(p: &mut P, sample: bool) -> (String, String, Vec<u64>) {
    let mut with_tt = p.below(4) == 0;
    let n_readings = if with_tt { 1800 } else { 40 + p.below(400) as usize };
    let mut script_v = jitter_script(p, n_readings);
    // one case in eight: the first collection is solved to give 0 / all ones / a zero half
    let mut forced_rounds: Option<u8> = None;
    if p.below(8) == 0 {
        let (want, mask) = [(0u64, u64::MAX), (u64::MAX, u64::MAX), (0, 0xffff_ffff_0000_0000), (0, 0xffff_ffff)][p.below(4) as usize];
        let rr = 2 + p.below(2) as usize;
        if let Some(v) = solved_script(p, rr, want, mask) {
            if std::env::var_os("DIGEST_SELFTEST").is_some() {
                // one-off self test of the duplicated model: real first word meets the target
                let (s3, p3) = (std::sync::Arc::new(v.clone()), std::sync::Arc::new(AtomicUsize::new(0)));
                let mut g = rand_jitter::JitterRng::new_with_timer(move || { let i = p3.fetch_add(1, Ordering::SeqCst); s3[i.min(s3.len() - 1)] });
                g.set_rounds(rr as u8);
                let w = g.next_u64();
                eprintln!("selftest want={:016x} mask={:016x} got={:016x} {}", want, mask, w, if (w ^ want) & mask == 0 { "OK" } else { "MISMATCH" });
            }
            script_v = v;
            forced_rounds = Some(rr as u8);
            with_tt = false;
        }
    }
    let script = Arc::new(script_v);
    let pos = Arc::new(AtomicUsize::new(0));
    let (s2, p2) = (script.clone(), pos.clone());
    let timer = move || {
        let i = p2.fetch_add(1, Ordering::SeqCst);
        if i < s2.len() {
            s2[i]
        } else {
            // benign never-stuck tail
            let k = (i - s2.len()) as u64 + 1;
            let z = k.wrapping_mul(0x9e3779b97f4a7c15);
            s2[s2.len() - 1].wrapping_add(k.wrapping_mul(1_000_003)).wrapping_add((z >> 40) % 99_991)
        }
    };
    let mut g = rand_jitter::JitterRng::new_with_timer(timer);
    let rounds = [1u8, 1, 2, 3, 8, 64][p.below(6) as usize];
    let rounds = forced_rounds.unwrap_or(rounds);
    g.set_rounds(rounds);
    let mut h = H(0xcbf29ce484222325);
    let mut first = Vec::new();
    let n_ops = if rounds == 64 { 3 } else { 4 + p.below(10) } + with_tt as u64;
    for k in 0..n_ops {
        let op = if with_tt && k == 0 { 99 } else { p.below(10) };
        let res = catch_unwind(AssertUnwindSafe(|| match op {
            99 => {
                let r = g.test_timer();
                let code: u64 = match &r { Ok(v) => *v as u64, Err(e) => 1000 + e.clone() as u32 as u64 % 16 };
                h.b(&code.to_le_bytes());
                if let Ok(v) = r { g.set_rounds(v); }
                code
            }
            0..=2 => { let v = g.next_u32(); h.b(&v.to_le_bytes()); v as u64 }
            3..=4 => { let v = g.next_u64(); h.b(&v.to_le_bytes()); v }
            5..=6 => { let mut b = vec![0u8; p.below(18) as usize]; g.fill_bytes(&mut b); h.b(&b); b.len() as u64 }
            7 => { let v = g.timer_stats(p.below(2) == 0); h.b(&v.to_le_bytes()); v as u64 }
            8 => { g.set_rounds(1 + p.below(6) as u8); 0 }
            _ => { let mut c = g.clone(); let v = c.next_u32(); h.b(&v.to_le_bytes()); v as u64 }
        }));
        match res {
            Ok(v) => { if sample && first.len() < 64 { first.push(v); } }
            Err(_) => return ("new_with_timer".into(), format!("panic@op:{}", k), first),
        }
    }
    h.b(&(pos.load(Ordering::SeqCst) as u64).to_le_bytes()); // readings consumed
    ("new_with_timer".into(), format!("{:016x}", h.0), first)
}

macro_rules! j {
    ($t:ty) => {
        Some((<$t>::jump as fn(&mut $t), <$t>::long_jump as fn(&mut $t)))
    };
}

fn main() {
    let a: Vec<String> = std::env::args().collect();
    let seed: u64 = a.get(1).map(|s| s.parse().unwrap()).unwrap_or(0);
    let cases: u64 = a.get(2).map(|s| s.parse().unwrap()).unwrap_or(2000);
    let first_case: u64 = a.get(3).map(|s| s.parse().unwrap()).unwrap_or(0);
    std::panic::set_hook(Box::new(|_| {}));
    use rand_xoshiro::*;
    let out = std::io::stdout();
    let mut out = std::io::BufWriter::new(out.lock());
    use std::io::Write;
    for i in first_case..first_case + cases {
        let mut p = P::new(seed, i);
        let sample = i % 97 == 0;
        let ty = i % 20;
        let (name, (ctor, dig, first)) = match ty {
            0 => ("Xoroshiro64Star", run_seeded::<Xoroshiro64Star>(&mut p, 8, 8, None, sample)),
            1 => ("Xoroshiro64StarStar", run_seeded::<Xoroshiro64StarStar>(&mut p, 8, 8, None, sample)),
            2 => ("Xoroshiro128Plus", run_seeded::<Xoroshiro128Plus>(&mut p, 16, 8, j!(Xoroshiro128Plus), sample)),
            3 => ("Xoroshiro128PlusPlus", run_seeded::<Xoroshiro128PlusPlus>(&mut p, 16, 8, j!(Xoroshiro128PlusPlus), sample)),
            4 => ("Xoroshiro128StarStar", run_seeded::<Xoroshiro128StarStar>(&mut p, 16, 8, j!(Xoroshiro128StarStar), sample)),
            5 => ("Xoshiro128Plus", run_seeded::<Xoshiro128Plus>(&mut p, 16, 8, j!(Xoshiro128Plus), sample)),
            6 => ("Xoshiro128PlusPlus", run_seeded::<Xoshiro128PlusPlus>(&mut p, 16, 8, j!(Xoshiro128PlusPlus), sample)),
            7 => ("Xoshiro128StarStar", run_seeded::<Xoshiro128StarStar>(&mut p, 16, 8, j!(Xoshiro128StarStar), sample)),
            8 => ("Xoshiro256Plus", run_seeded::<Xoshiro256Plus>(&mut p, 32, 8, j!(Xoshiro256Plus), sample)),
            9 => ("Xoshiro256PlusPlus", run_seeded::<Xoshiro256PlusPlus>(&mut p, 32, 8, j!(Xoshiro256PlusPlus), sample)),
            10 => ("Xoshiro256StarStar", run_seeded::<Xoshiro256StarStar>(&mut p, 32, 8, j!(Xoshiro256StarStar), sample)),
            11 => ("Xoshiro512Plus", run_seeded::<Xoshiro512Plus>(&mut p, 64, 8, j!(Xoshiro512Plus), sample)),
            12 => ("Xoshiro512PlusPlus", run_seeded::<Xoshiro512PlusPlus>(&mut p, 64, 8, j!(Xoshiro512PlusPlus), sample)),
            13 => ("Xoshiro512StarStar", run_seeded::<Xoshiro512StarStar>(&mut p, 64, 8, j!(Xoshiro512StarStar), sample)),
            14 => ("SplitMix64", run_seeded::<SplitMix64>(&mut p, 8, 8, None, sample)),
            15 => ("XorShiftRng", run_seeded::<rand_xorshift::XorShiftRng>(&mut p, 16, 8, None, sample)),
            16 => {
                let (c, d, f) = run_seeded::<rand_hc::Hc128Rng>(&mut p, 32, 64, None, sample);
                // plus a sweep of cheap constructions (rare-seed slips in the key expansion)
                let mut h = H(0xcbf29ce484222325);
                let mut bad = None;
                for k in 0..200u64 {
                    let mut s = [0u8; 32];
                    s[..8].copy_from_slice(&(i.wrapping_mul(200).wrapping_add(k)).to_le_bytes());
                    if k % 2 == 1 { for b in s[8..].iter_mut() { *b = p.u() as u8; } }
                    match catch_unwind(AssertUnwindSafe(|| rand_hc::Hc128Rng::from_seed(s).next_u32())) {
                        Ok(v) => h.b(&v.to_le_bytes()),
                        Err(_) => { bad = Some(k); break; }
                    }
                }
                let d = match bad { Some(k) => format!("panic@seed_sweep:{}", k), None => format!("{}{:08x}", d, h.0 as u32) };
                ("Hc128Rng", (c, d, f))
            }
            17 => ("IsaacRng", run_seeded::<rand_isaac::IsaacRng>(&mut p, 32, 1024, None, sample)),
            18 => ("Isaac64Rng", run_seeded::<rand_isaac::Isaac64Rng>(&mut p, 32, 2048, None, sample)),
            _ => ("JitterRng", run_jitter(&mut p, sample)),
        };
        writeln!(out, "case {} {} {} {}", i, name, ctor, dig).unwrap();
        out.flush().unwrap();
        if sample {
            let vals: Vec<String> = first.iter().map(|v| format!("{:x}", v)).collect();
            writeln!(out, "values {} {}", i, vals.join(",")).unwrap();
        }
    }
}
