//! `monitor <property> [--tier quick|thorough] [--seed N] [--threads N]
//!          [--budget SECONDS] [--replay FILE] [--out FILE]`
//!
//! Runs one monitor and writes its report as JSON. Exit status: 0 = report
//! written (the driver decides the verdict), 3 = model self-test failed or bad
//! usage (harness error, never a violation).

use rngs_verif_harness::monitors::{self, Only};
use rngs_verif_harness::util::{install_panic_hook, Ctx};
use serde_json::{json, Value};

fn main() {
    let args: Vec<String> = std::env::args().collect();
    if args.len() < 2 {
        eprintln!("usage: monitor <Cxx> [--tier quick|thorough] [--seed N] [--threads N] [--budget S] [--replay FILE] [--out FILE]");
        std::process::exit(3);
    }
    if args[1] == "--c19-child" {
        // fresh-process helper of the C19 process_order sub-monitor
        std::panic::set_hook(Box::new(|_| {}));
        let id: u64 = args[2].parse().expect("id");
        let order: Vec<usize> = args[3].split(',').filter(|s| !s.is_empty()).map(|s| s.parse().expect("order")).collect();
        rngs_verif_harness::monitors::c19::child_main(id, &order);
        return;
    }
    if args[1] == "--c06-race-child" {
        std::panic::set_hook(Box::new(|_| {}));
        rngs_verif_harness::monitors::c06::race_child(args[2].parse().expect("type"), args[3] == "1", args[4].parse().expect("id"));
        return;
    }
    if args[1] == "--c08-race-child" {
        std::panic::set_hook(Box::new(|_| {}));
        rngs_verif_harness::monitors::c08::race_child(args[2].parse().expect("type"), args[3].parse().expect("id"));
        return;
    }
    if args[1] == "--dump-c06-oracle" {
        rngs_verif_harness::monitors::c06::dump_oracles(&args[2]);
        return;
    }
    let prop = args[1].clone();
    let mut tier = "quick".to_string();
    let mut seed = 0u64;
    let mut threads = std::thread::available_parallelism().map(|n| n.get()).unwrap_or(4);
    let mut budget = 60.0f64;
    let mut scale = 1.0f64;
    let mut replay: Option<String> = None;
    let mut out: Option<String> = None;
    let mut i = 2;
    while i < args.len() {
        let v = args.get(i + 1).cloned().unwrap_or_default();
        match args[i].as_str() {
            "--tier" => tier = v,
            "--seed" => seed = v.parse().expect("--seed"),
            "--threads" => threads = v.parse().expect("--threads"),
            "--budget" => budget = v.parse().expect("--budget"),
            "--scale" => scale = v.parse().expect("--scale"),
            "--replay" => replay = Some(v),
            "--out" => out = Some(v),
            x => {
                eprintln!("unknown argument {}", x);
                std::process::exit(3);
            }
        }
        i += 2;
    }
    if scale < 1.0 {
        rngs_verif_harness::util::REDUCED.store(true, std::sync::atomic::Ordering::Relaxed);
    }
    install_panic_hook();
    #[cfg(feature = "jlog")]
    {
        // a logger that formats (and thereby evaluates) every record
        struct L;
        impl log::Log for L {
            fn enabled(&self, _: &log::Metadata) -> bool { true }
            fn log(&self, r: &log::Record) {
                let s = format!("{}", r.args());
                std::hint::black_box(s);
            }
            fn flush(&self) {}
        }
        static LOGGER: L = L;
        let _ = log::set_logger(&LOGGER);
        log::set_max_level(log::LevelFilter::Trace);
    }
    let ctx = Ctx {
        tier_thorough: tier == "thorough",
        seed,
        threads,
        budget_s: budget,
        scale,
        start: std::time::Instant::now(),
    };
    if let Err(e) = monitors::self_tests() {
        let v = json!({"property": prop, "harness_error": format!("model self-test failed: {}", e)});
        emit(&out, &v);
        eprintln!("model self-test failed: {}", e);
        std::process::exit(3);
    }
    let report = if let Some(path) = replay {
        let text = std::fs::read_to_string(&path).expect("read replay file");
        let v: Value = serde_json::from_str(&text).expect("parse replay file");
        let sub = v["sub"].as_str().expect("replay.sub").to_string();
        let id: u64 = match &v["id"] {
            Value::String(s) => s.parse().expect("replay.id"),
            Value::Number(n) => n.as_u64().expect("replay.id"),
            _ => 0,
        };
        let explicit = v.get("explicit").cloned();
        let only = Only { sub: &sub, id, explicit: explicit.as_ref() };
        monitors::run(&prop, &ctx, Some(&only))
    } else {
        monitors::run(&prop, &ctx, None)
    };
    let report = match report {
        Some(r) => r,
        None => {
            eprintln!("unknown property {}", prop);
            std::process::exit(3);
        }
    };
    let mut v = report.to_json();
    v["property"] = json!(prop);
    v["tier"] = json!(tier);
    v["seed"] = json!(seed);
    v["threads"] = json!(threads);
    v["wall_s"] = json!(ctx.elapsed());
    emit(&out, &v);
}

fn emit(out: &Option<String>, v: &Value) {
    let s = serde_json::to_string_pretty(v).unwrap();
    match out {
        Some(p) => std::fs::write(p, s).expect("write report"),
        None => println!("{}", s),
    }
}
