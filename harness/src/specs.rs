//! One descriptor per generator type of the crates under test, so that the
//! monitors can be written once and instantiated for every type.

use rand_core::{RngCore, SeedableRng, TryRngCore};
use std::fmt::Debug;

#[derive(Clone, Copy, Debug, PartialEq, Eq)]
pub enum Family {
    /// 32-bit native word, next_u64 / fill_bytes composed from next_u32
    W32,
    /// 64-bit native word, next_u32 = upper half
    W64Hi,
    /// 64-bit native word, next_u32 = lower half
    W64Lo,
    /// SplitMix64: next_u32 = Mix4 finalizer of the same counter step
    SplitMix,
    /// BlockRng over u32 words; block length in words
    Block32(usize),
    /// BlockRng64 over u64 words
    Block64(usize),
}

impl Family {
    pub fn native_bits(self) -> u32 {
        match self {
            Family::W32 | Family::Block32(_) => 32,
            _ => 64,
        }
    }
    pub fn block_words(self) -> usize {
        match self {
            Family::Block32(n) | Family::Block64(n) => n,
            _ => 1,
        }
    }
    pub fn is_block(self) -> bool {
        matches!(self, Family::Block32(_) | Family::Block64(_))
    }
}

pub trait Spec: 'static {
    type R: RngCore + SeedableRng + Clone + Debug + Send + Sync + 'static;
    const NAME: &'static str;
    const SEED_LEN: usize;
    const FAMILY: Family;
    /// the all-zero seed is remapped (linear engines)
    const LINEAR: bool;
    const HAS_EQ: bool;
    const HAS_SERDE: bool;
    const HAS_JUMP: bool;
    /// Debug implementation promises not to expose state (C17)
    const HIDES_STATE: bool;

    fn seed(b: &[u8]) -> <Self::R as SeedableRng>::Seed {
        let mut s = <Self::R as SeedableRng>::Seed::default();
        s.as_mut().copy_from_slice(b);
        s
    }
    fn from_seed(b: &[u8]) -> Self::R {
        Self::R::from_seed(Self::seed(b))
    }
    fn eq(_a: &Self::R, _b: &Self::R) -> Option<bool> {
        None
    }
    /// `a != b` through PartialEq::ne (must be the negation of ==)
    fn ne(_a: &Self::R, _b: &Self::R) -> Option<bool> {
        None
    }
    fn bincode(_r: &Self::R) -> Option<Vec<u8>> {
        None
    }
    fn from_bincode(_b: &[u8]) -> Option<Result<Self::R, String>> {
        None
    }
    /// deserialize with bincode's Options API, which rejects trailing bytes
    fn from_bincode_strict(_b: &[u8]) -> Option<Result<Self::R, String>> {
        None
    }
    /// (a, b) written into ONE stream and read back (a snapshot must consume exactly its own bytes)
    fn pair_roundtrip(_a: &Self::R, _b: &Self::R) -> Option<Result<(Self::R, Self::R), String>> {
        None
    }
    fn json(_r: &Self::R) -> Option<String> {
        None
    }
    fn from_json(_b: &str) -> Option<Result<Self::R, String>> {
        None
    }
    fn jump(_r: &mut Self::R) -> bool {
        false
    }
    fn long_jump(_r: &mut Self::R) -> bool {
        false
    }
    /// read position of a buffered generator (public accessor of BlockRng)
    fn index(_r: &Self::R) -> Option<usize> {
        None
    }
}

macro_rules! spec {
    ($spec:ident, $ty:ty, $name:expr, $len:expr, $fam:expr, linear=$lin:expr, eq=$eq:tt, serde=$serde:tt, jump=$jump:tt, hides=$hides:expr) => {
        pub struct $spec;
        impl Spec for $spec {
            type R = $ty;
            const NAME: &'static str = $name;
            const SEED_LEN: usize = $len;
            const FAMILY: Family = $fam;
            const LINEAR: bool = $lin;
            const HAS_EQ: bool = $eq;
            const HAS_SERDE: bool = $serde;
            const HAS_JUMP: bool = $jump;
            const HIDES_STATE: bool = $hides;
            spec!(@eq $eq);
            spec!(@serde $serde, $ty);
            spec!(@jump $jump);
        }
    };
    (@eq true) => {
        fn eq(a: &Self::R, b: &Self::R) -> Option<bool> {
            Some(a == b)
        }
        fn ne(a: &Self::R, b: &Self::R) -> Option<bool> {
            Some(a != b)
        }
    };
    (@eq false) => {};
    (@serde true, $ty:ty) => {
        fn bincode(r: &Self::R) -> Option<Vec<u8>> {
            Some(bincode::serialize(r).expect("bincode serialize"))
        }
        fn from_bincode(b: &[u8]) -> Option<Result<Self::R, String>> {
            Some(bincode::deserialize::<$ty>(b).map_err(|e| e.to_string()))
        }
        fn from_bincode_strict(b: &[u8]) -> Option<Result<Self::R, String>> {
            use bincode::Options;
            Some(bincode::options().with_fixint_encoding().deserialize::<$ty>(b).map_err(|e| e.to_string()))
        }
        fn pair_roundtrip(a: &Self::R, b: &Self::R) -> Option<Result<(Self::R, Self::R), String>> {
            let bytes = bincode::serialize(&(a, b)).expect("bincode serialize pair");
            Some(bincode::deserialize::<($ty, $ty)>(&bytes).map_err(|e| e.to_string()))
        }
        fn json(r: &Self::R) -> Option<String> {
            Some(serde_json::to_string(r).expect("json serialize"))
        }
        fn from_json(b: &str) -> Option<Result<Self::R, String>> {
            Some(serde_json::from_str::<$ty>(b).map_err(|e| e.to_string()))
        }
    };
    (@serde false, $ty:ty) => {};
    (@jump true) => {
        fn jump(r: &mut Self::R) -> bool {
            r.jump();
            true
        }
        fn long_jump(r: &mut Self::R) -> bool {
            r.long_jump();
            true
        }
    };
    (@jump false) => {};
}

use rand_xoshiro as x;
spec!(SXoroshiro64Star, x::Xoroshiro64Star, "Xoroshiro64Star", 8, Family::W32, linear = true, eq = true, serde = true, jump = false, hides = false);
spec!(SXoroshiro64StarStar, x::Xoroshiro64StarStar, "Xoroshiro64StarStar", 8, Family::W32, linear = true, eq = true, serde = true, jump = false, hides = false);
spec!(SXoroshiro128Plus, x::Xoroshiro128Plus, "Xoroshiro128Plus", 16, Family::W64Hi, linear = true, eq = true, serde = true, jump = true, hides = false);
spec!(SXoroshiro128PlusPlus, x::Xoroshiro128PlusPlus, "Xoroshiro128PlusPlus", 16, Family::W64Lo, linear = true, eq = true, serde = true, jump = true, hides = false);
spec!(SXoroshiro128StarStar, x::Xoroshiro128StarStar, "Xoroshiro128StarStar", 16, Family::W64Lo, linear = true, eq = true, serde = true, jump = true, hides = false);
spec!(SXoshiro128Plus, x::Xoshiro128Plus, "Xoshiro128Plus", 16, Family::W32, linear = true, eq = true, serde = true, jump = true, hides = false);
spec!(SXoshiro128PlusPlus, x::Xoshiro128PlusPlus, "Xoshiro128PlusPlus", 16, Family::W32, linear = true, eq = true, serde = true, jump = true, hides = false);
spec!(SXoshiro128StarStar, x::Xoshiro128StarStar, "Xoshiro128StarStar", 16, Family::W32, linear = true, eq = true, serde = true, jump = true, hides = false);
spec!(SXoshiro256Plus, x::Xoshiro256Plus, "Xoshiro256Plus", 32, Family::W64Hi, linear = true, eq = true, serde = true, jump = true, hides = false);
spec!(SXoshiro256PlusPlus, x::Xoshiro256PlusPlus, "Xoshiro256PlusPlus", 32, Family::W64Hi, linear = true, eq = true, serde = true, jump = true, hides = false);
spec!(SXoshiro256StarStar, x::Xoshiro256StarStar, "Xoshiro256StarStar", 32, Family::W64Hi, linear = true, eq = true, serde = true, jump = true, hides = false);
spec!(SXoshiro512Plus, x::Xoshiro512Plus, "Xoshiro512Plus", 64, Family::W64Hi, linear = true, eq = true, serde = true, jump = true, hides = false);
spec!(SXoshiro512PlusPlus, x::Xoshiro512PlusPlus, "Xoshiro512PlusPlus", 64, Family::W64Hi, linear = true, eq = true, serde = true, jump = true, hides = false);
spec!(SXoshiro512StarStar, x::Xoshiro512StarStar, "Xoshiro512StarStar", 64, Family::W64Hi, linear = true, eq = true, serde = true, jump = true, hides = false);
spec!(SSplitMix64, x::SplitMix64, "SplitMix64", 8, Family::SplitMix, linear = false, eq = true, serde = true, jump = false, hides = false);
spec!(SXorShift, rand_xorshift::XorShiftRng, "XorShiftRng", 16, Family::W32, linear = true, eq = true, serde = true, jump = false, hides = true);

pub struct SHc128;
impl Spec for SHc128 {
    type R = rand_hc::Hc128Rng;
    const NAME: &'static str = "Hc128Rng";
    const SEED_LEN: usize = 32;
    const FAMILY: Family = Family::Block32(16);
    const LINEAR: bool = false;
    const HAS_EQ: bool = true;
    const HAS_SERDE: bool = false;
    const HAS_JUMP: bool = false;
    const HIDES_STATE: bool = true;
    fn eq(a: &Self::R, b: &Self::R) -> Option<bool> {
        Some(a == b)
    }
    fn ne(a: &Self::R, b: &Self::R) -> Option<bool> {
        Some(a != b)
    }
}

pub struct SIsaac;
impl Spec for SIsaac {
    type R = rand_isaac::IsaacRng;
    const NAME: &'static str = "IsaacRng";
    const SEED_LEN: usize = 32;
    const FAMILY: Family = Family::Block32(256);
    const LINEAR: bool = false;
    const HAS_EQ: bool = false;
    const HAS_SERDE: bool = true;
    const HAS_JUMP: bool = false;
    const HIDES_STATE: bool = true;
    spec!(@serde true, rand_isaac::IsaacRng);
}
pub struct SIsaac64;
impl Spec for SIsaac64 {
    type R = rand_isaac::Isaac64Rng;
    const NAME: &'static str = "Isaac64Rng";
    const SEED_LEN: usize = 32;
    const FAMILY: Family = Family::Block64(256);
    const LINEAR: bool = false;
    const HAS_EQ: bool = false;
    const HAS_SERDE: bool = true;
    const HAS_JUMP: bool = false;
    const HIDES_STATE: bool = true;
    spec!(@serde true, rand_isaac::Isaac64Rng);
}

pub const N_TYPES: usize = 19;
pub const TYPE_NAMES: [&str; N_TYPES] = [
    "Xoroshiro64Star", "Xoroshiro64StarStar", "Xoroshiro128Plus", "Xoroshiro128PlusPlus",
    "Xoroshiro128StarStar", "Xoshiro128Plus", "Xoshiro128PlusPlus", "Xoshiro128StarStar",
    "Xoshiro256Plus", "Xoshiro256PlusPlus", "Xoshiro256StarStar", "Xoshiro512Plus",
    "Xoshiro512PlusPlus", "Xoshiro512StarStar", "SplitMix64", "XorShiftRng", "Hc128Rng",
    "IsaacRng", "Isaac64Rng",
];

/// `with_spec!(index, S => expr)` evaluates `expr` with `S` bound to the spec
/// of type number `index` (order of TYPE_NAMES).
#[macro_export]
macro_rules! with_spec {
    ($idx:expr, $S:ident => $body:expr) => {
        match $idx {
            0 => { type $S = $crate::specs::SXoroshiro64Star; $body }
            1 => { type $S = $crate::specs::SXoroshiro64StarStar; $body }
            2 => { type $S = $crate::specs::SXoroshiro128Plus; $body }
            3 => { type $S = $crate::specs::SXoroshiro128PlusPlus; $body }
            4 => { type $S = $crate::specs::SXoroshiro128StarStar; $body }
            5 => { type $S = $crate::specs::SXoshiro128Plus; $body }
            6 => { type $S = $crate::specs::SXoshiro128PlusPlus; $body }
            7 => { type $S = $crate::specs::SXoshiro128StarStar; $body }
            8 => { type $S = $crate::specs::SXoshiro256Plus; $body }
            9 => { type $S = $crate::specs::SXoshiro256PlusPlus; $body }
            10 => { type $S = $crate::specs::SXoshiro256StarStar; $body }
            11 => { type $S = $crate::specs::SXoshiro512Plus; $body }
            12 => { type $S = $crate::specs::SXoshiro512PlusPlus; $body }
            13 => { type $S = $crate::specs::SXoshiro512StarStar; $body }
            14 => { type $S = $crate::specs::SSplitMix64; $body }
            15 => { type $S = $crate::specs::SXorShift; $body }
            16 => { type $S = $crate::specs::SHc128; $body }
            17 => { type $S = $crate::specs::SIsaac; $body }
            18 => { type $S = $crate::specs::SIsaac64; $body }
            _ => panic!("type index out of range"),
        }
    };
}

/// indices of the type groups
pub const VIGNA_LINEAR: std::ops::Range<usize> = 0..14;
pub const XOSHIRO_FAMILY: std::ops::Range<usize> = 0..15;
pub const IDX_SPLITMIX: usize = 14;
pub const IDX_XORSHIFT: usize = 15;
pub const IDX_HC128: usize = 16;
pub const IDX_ISAAC: usize = 17;
pub const IDX_ISAAC64: usize = 18;

/// helper for try_from_rng with arbitrary fallible sources
pub fn try_from<S: Spec, T: TryRngCore>(src: &mut T) -> Result<S::R, T::Error> {
    S::R::try_from_rng(src)
}

// ---------------------------------------------------------------------------
// Reference native-word stream for every type (used by C01–C04, C05, C09 …)

use crate::models::{hc128::Hc128, isaac, vigna};

pub enum RefModel {
    Vigna(vigna::Vigna),
    SplitMix(vigna::SplitMix),
    Xor128(vigna::Xor128),
    Hc(Box<Hc128>),
    Isaac(Box<isaac::Isaac32>),
    Isaac64(Box<isaac::Isaac64>),
}

impl RefModel {
    /// model of `from_seed(seed)` for a seed that is used verbatim
    pub fn from_seed(name: &str, seed: &[u8]) -> RefModel {
        match name {
            "SplitMix64" => RefModel::SplitMix(vigna::SplitMix::new(u64::from_le_bytes(seed.try_into().unwrap()))),
            "XorShiftRng" => RefModel::Xor128(vigna::Xor128::from_seed_bytes(seed)),
            "Hc128Rng" => RefModel::Hc(Box::new(Hc128::new(seed))),
            "IsaacRng" => RefModel::Isaac(Box::new(isaac::isaac32_from_seed(seed))),
            "Isaac64Rng" => RefModel::Isaac64(Box::new(isaac::isaac64_from_seed(seed))),
            _ => RefModel::Vigna(vigna::Vigna::from_seed_bytes(name, seed)),
        }
    }
    /// next native-width word (32-bit words are returned in the low half)
    pub fn next(&mut self) -> u64 {
        match self {
            RefModel::Vigna(v) => v.next(),
            RefModel::SplitMix(s) => s.next_u64(),
            RefModel::Xor128(x) => x.next() as u64,
            RefModel::Hc(h) => h.next() as u64,
            RefModel::Isaac(i) => i.next() as u64,
            RefModel::Isaac64(i) => i.next(),
        }
    }
    /// state image as little-endian words (small generators only)
    pub fn state_bytes(&self) -> Option<Vec<u8>> {
        match self {
            RefModel::Vigna(v) => Some(v.state_bytes()),
            RefModel::SplitMix(s) => Some(s.x.to_le_bytes().to_vec()),
            RefModel::Xor128(x) => Some(x.state_bytes()),
            _ => None,
        }
    }
}
