//! Workload generators shared by the monitors: structured seeds, operation
//! histories, scripted timers and instrumented source RNGs.

use crate::models::jitter::Readings;
use crate::util::Prng;
use rand_core::{RngCore, TryRngCore};
use std::sync::atomic::{AtomicUsize, Ordering};
use std::sync::Arc;

// ---------------------------------------------------------------------------
// Seeds

pub const SEED_CLASSES: [&str; 11] = [
    "uniform", "sparse", "dense", "single_byte", "word_patterns", "small_ints", "repeated_byte", "high_bits", "algebraic",
    "zero_region", "masked_words",
];

/// A seed of `len` bytes of the class chosen by `p`; never all-zero unless
/// `allow_zero`. Returns (class name, bytes).
pub fn gen_seed(p: &mut Prng, len: usize, word_bytes: usize, allow_zero: bool) -> (&'static str, Vec<u8>) {
    loop {
        let class = p.below(SEED_CLASSES.len() as u64) as usize;
        let mut s = vec![0u8; len];
        match class {
            0 => p.fill(&mut s),
            1 => {
                for _ in 0..p.range(1, 3) {
                    let bit = p.below(len as u64 * 8) as usize;
                    s[bit / 8] |= 1 << (bit % 8);
                }
            }
            2 => {
                s.iter_mut().for_each(|b| *b = 0xff);
                for _ in 0..p.range(1, 3) {
                    let bit = p.below(len as u64 * 8) as usize;
                    s[bit / 8] &= !(1 << (bit % 8));
                }
            }
            3 => {
                let pos = p.below(len as u64) as usize;
                s[pos] = *p.pick(&[0x01u8, 0x80, 0xff, 0x55]);
            }
            4 => {
                // per-word boundary patterns in random combination
                for w in s.chunks_mut(word_bytes) {
                    let n = w.len();
                    match p.below(7) {
                        0 => {}
                        1 => w[0] = 1,
                        2 => {
                            w.iter_mut().for_each(|b| *b = 0xff);
                            w[n - 1] = 0x7f;
                        }
                        3 => w[n - 1] = 0x80,
                        4 => w.iter_mut().for_each(|b| *b = 0xff),
                        5 => w[..n / 2].iter_mut().for_each(|b| *b = 0xff),
                        _ => w[n / 2..].iter_mut().for_each(|b| *b = 0xff),
                    }
                }
            }
            5 => {
                for (i, w) in s.chunks_mut(word_bytes).enumerate() {
                    w[0] = (i as u8).wrapping_add(p.below(4) as u8);
                }
            }
            6 => {
                let b = p.below(256) as u8;
                s.iter_mut().for_each(|x| *x = b);
            }
            9 => {
                // a zero prefix or suffix of 4, 8, 16, 32 … bytes, the rest random
                // (zero tests done machine word by machine word see only a part)
                p.fill(&mut s);
                let mut k = 4usize << p.below(5);
                while k >= len { k /= 2; }
                let k = k.max(1);
                if p.chance(1, 2) { s[..k].iter_mut().for_each(|b| *b = 0); } else { s[len - k..].iter_mut().for_each(|b| *b = 0); }
            }
            10 => {
                // the same mask on every word: low half / high half / one byte lane zero
                p.fill(&mut s);
                let lanes: &[usize] = match p.below(5) {
                    0 => &[0, 1, 2, 3],          // low 32 bits of a 64-bit word (all of a 32-bit word)
                    1 => &[4, 5, 6, 7],
                    2 => &[0],
                    3 => &[7, 3],
                    _ => &[0, 2, 4, 6],
                };
                for w in s.chunks_mut(word_bytes.max(8).min(len)) {
                    for &l in lanes { if l < w.len() { w[l] = 0; } }
                }
            }
            8 => {
                // words related to each other: equal, negated, complemented, xor-to-zero, zero
                p.fill(&mut s);
                let nw0 = len / word_bytes;
                let sub_kind = p.below(3);
                if sub_kind < 2 {
                    // words drawn from a tiny pool {0, A, B, -A, !A, A with a zero low/high byte}
                    let mask0 = if word_bytes == 4 { 0xffff_ffffu64 } else { u64::MAX };
                    let a0 = p.u64() & mask0;
                    let b0 = p.u64() & mask0;
                    // (also: words whose product with a scrambler constant is small, i.e.
                    // modular inverses of 5, 9, 0x9E3779BB times a small value)
                    let small = p.u64() >> (32 + p.below(32));
                    let inv = |c: u64| -> u64 { let mut x = c; for _ in 0..6 { x = x.wrapping_mul(2u64.wrapping_sub(c.wrapping_mul(x))); } x };
                    let k = *p.pick(&[5u64, 9, 0x9E37_79BB, 45]);
                    let pre = inv(k).wrapping_mul(small) & mask0;
                    let pool = [0u64, a0, b0, a0.wrapping_neg() & mask0, !a0 & mask0, a0 & !0xff, pre, 1u64 << p.below(word_bytes as u64 * 8)];
                    // sub_kind 1: every word the same (non-zero) pool value
                    let same = pool[1 + p.below(7) as usize];
                    for i in 0..nw0 {
                        let v = if sub_kind == 1 { same } else { pool[p.below(8) as usize] };
                        for k in 0..word_bytes { s[i * word_bytes + k] = (v >> (8 * k)) as u8; }
                    }
                    if allow_zero || s.iter().any(|&b| b != 0) {
                        return (SEED_CLASSES[class], s);
                    }
                    continue;
                }
                let nw = len / word_bytes;
                let rd = |s: &[u8], i: usize| -> u64 { let mut v = 0u64; for k in 0..word_bytes { v |= (s[i * word_bytes + k] as u64) << (8 * k); } v };
                let wr = |s: &mut [u8], i: usize, v: u64| { for k in 0..word_bytes { s[i * word_bytes + k] = (v >> (8 * k)) as u8; } };
                let mask = if word_bytes == 4 { 0xffff_ffffu64 } else { u64::MAX };
                for _ in 0..p.range(1, 3) {
                    if nw < 2 { break; }
                    let i = p.below(nw as u64) as usize;
                    let j = (i + 1 + p.below(nw as u64 - 1) as usize) % nw;
                    let wi = rd(&s, i);
                    match p.below(6) {
                        0 => wr(&mut s, j, wi),
                        1 => wr(&mut s, j, wi.wrapping_neg() & mask),
                        2 => wr(&mut s, j, !wi & mask),
                        3 => wr(&mut s, j, 0),
                        4 => { wr(&mut s, j, wi.wrapping_neg().wrapping_sub(p.below(3)) & mask) }
                        _ => {
                            // last word = xor of all the others
                            let mut x = 0u64;
                            for k in 0..nw - 1 { x ^= rd(&s, k); }
                            wr(&mut s, nw - 1, x);
                        }
                    }
                }
            }
            _ => {
                p.fill(&mut s);
                for w in s.chunks_mut(word_bytes) {
                    let n = w.len();
                    w[n - 1] |= 0x80;
                    if p.chance(1, 2) {
                        w[n - 1] = 0xff;
                    }
                }
            }
        }
        if allow_zero || s.iter().any(|&b| b != 0) {
            return (SEED_CLASSES[class], s);
        }
    }
}

/// Seeds aimed at special values of a particular generator: for SplitMix64 the
/// counters whose k-th 64-bit output is 0 / 1 / MAX / 2^63 (k = 1..8).
pub fn special_seeds(type_name: &str, len: usize) -> Vec<Vec<u8>> {
    let mut v: Vec<Vec<u8>> = Vec::new();
    if type_name == "SplitMix64" {
        const PHI: u64 = 0x9e37_79b9_7f4a_7c15;
        for out in [0u64, 1, u64::MAX, 1 << 63, 0xffff_ffff, 0xffff_ffff_0000_0000] {
            let c = crate::models::vigna::SplitMix::unfin64(out);
            for k in 1..=8u64 {
                v.push(c.wrapping_sub(PHI.wrapping_mul(k)).to_le_bytes().to_vec());
            }
        }
        for k in 0..=8u64 {
            v.push(PHI.wrapping_mul(k).wrapping_neg().to_le_bytes().to_vec());
        }
    }
    // all-ones, and alternating patterns, for every type
    v.push(vec![0xff; len]);
    v.push(vec![0xaa; len]);
    v.push((0..len).map(|i| if (i / 4) % 2 == 0 { 0xff } else { 0 }).collect());
    v.push((0..len).map(|i| if (i / 8) % 2 == 0 { 0 } else { 0xff }).collect());
    v
}

/// every seed with exactly one non-zero byte out of {0x01, 0x80, 0xff}
pub fn single_byte_seeds(len: usize) -> Vec<Vec<u8>> {
    let mut v = Vec::new();
    for pos in 0..len {
        for val in [0x01u8, 0x80, 0xff] {
            let mut s = vec![0u8; len];
            s[pos] = val;
            v.push(s);
        }
    }
    v
}

// ---------------------------------------------------------------------------
// Operation histories

#[derive(Clone, Debug, PartialEq, Eq)]
pub enum Op {
    U32,
    U64,
    Fill(usize),
    Jump,
    LongJump,
    /// type-specific auxiliary operation (only generated where a monitor handles it)
    Aux(u8),
}

impl Op {
    pub fn show(&self) -> String {
        match self {
            Op::U32 => "u32".into(),
            Op::U64 => "u64".into(),
            Op::Fill(n) => format!("fill({})", n),
            Op::Jump => "jump".into(),
            Op::LongJump => "long_jump".into(),
            Op::Aux(k) => format!("aux({})", k),
        }
    }
}
pub fn show_ops(ops: &[Op]) -> String {
    ops.iter().map(|o| o.show()).collect::<Vec<_>>().join(",")
}

/// fill length distribution of DESIGN §3; `left_in_block` = bytes left in the
/// current block (0 for unbuffered generators), `block_bytes` the block size
pub fn gen_fill_len(p: &mut Prng, left_in_block: usize, block_bytes: usize) -> usize {
    // one request in ten is of arbitrary moderate size (bulk paths with their own
    // thresholds and remainders: 128, 256, 1024, 2048 … and every residue)
    if p.chance(1, 10) {
        let cap = match p.below(3) { 0 => 300, 1 => 1300, _ => 4400 };
        return p.below(cap) as usize;
    }
    match p.below(10) {
        0..=3 => p.below(18) as usize,
        4 | 5 => {
            let d = p.below(10) as usize;
            if p.chance(1, 2) {
                left_in_block + d
            } else {
                left_in_block.saturating_sub(d)
            }
        }
        6 | 7 => p.below(2 * block_bytes as u64 + 10) as usize,
        8 => *p.pick(&[block_bytes, 2 * block_bytes, 4096 + p.0 as usize % 9]),
        _ => 0,
    }
}

/// one output operation; `w32`/`w64`/`wf` are relative weights
pub fn gen_out_op(p: &mut Prng, left_in_block: usize, block_bytes: usize) -> Op {
    match p.below(10) {
        0..=3 => Op::U32,
        4..=6 => Op::U64,
        _ => Op::Fill(gen_fill_len(p, left_in_block, block_bytes)),
    }
}

// ---------------------------------------------------------------------------
// Scripted timers

/// The shared part of a scripted timer: a list of readings, then a
/// deterministic never-stuck tail, and a call counter.
pub struct Script {
    pub readings: Vec<u64>,
    pub pos: AtomicUsize,
    pub tail_seed: u64,
    /// fault injection: the call with this index panics (once); usize::MAX = never
    pub fault_at: AtomicUsize,
}

pub const TIMER_FAULT_MSG: &str = "scripted timer fault (injected)";

impl Script {
    pub fn reading_at(&self, i: usize) -> u64 {
        if i < self.readings.len() {
            self.readings[i]
        } else {
            // tail: strictly increasing with pseudo-random increments whose
            // first, second and third differences are practically never zero
            let last = self.readings.last().copied().unwrap_or(1_000_000);
            let k = (i - self.readings.len()) as u64 + 1;
            let mut z = k.wrapping_mul(0x9e3779b97f4a7c15) ^ self.tail_seed;
            z = (z ^ (z >> 29)).wrapping_mul(0xbf58476d1ce4e5b9);
            z ^= z >> 32;
            last.wrapping_add(k.wrapping_mul(1_000_003)).wrapping_add(z % 99_991)
        }
    }
}

#[derive(Clone)]
pub struct ScriptedTimer(pub Arc<Script>);

impl ScriptedTimer {
    pub fn new(readings: Vec<u64>, tail_seed: u64) -> Self {
        ScriptedTimer(Arc::new(Script { readings, pos: AtomicUsize::new(0), tail_seed, fault_at: AtomicUsize::new(usize::MAX) }))
    }
    pub fn calls(&self) -> usize {
        self.0.pos.load(Ordering::SeqCst)
    }
    /// make the k-th timer call from now panic (one-shot)
    pub fn inject_fault_after(&self, k: usize) {
        self.0.fault_at.store(self.calls() + k, Ordering::SeqCst);
    }
    pub fn set_pos(&self, pos: usize) {
        self.0.pos.store(pos, Ordering::SeqCst);
    }
    pub fn fault_pending(&self) -> bool {
        self.0.fault_at.load(Ordering::SeqCst) != usize::MAX
    }
    pub fn clear_fault(&self) {
        self.0.fault_at.store(usize::MAX, Ordering::SeqCst);
    }
    pub fn read(&self) -> u64 {
        let i = self.0.pos.fetch_add(1, Ordering::SeqCst);
        self.0.reading_at(i)
    }
    /// the closure handed to `JitterRng::new_with_timer`
    pub fn closure(&self) -> impl Fn() -> u64 + Send + Sync + Clone + 'static {
        let s = self.0.clone();
        move || {
            let i = s.pos.fetch_add(1, Ordering::SeqCst);
            if i == s.fault_at.load(Ordering::SeqCst) {
                s.fault_at.store(usize::MAX, Ordering::SeqCst);
                panic!("{}", TIMER_FAULT_MSG);
            }
            s.reading_at(i)
        }
    }
    /// an independent cursor over the same script for the model
    pub fn model_cursor(&self) -> ScriptCursor {
        ScriptCursor { s: self.0.clone(), pos: 0 }
    }
}

pub struct ScriptCursor {
    pub s: Arc<Script>,
    pub pos: usize,
}
impl Readings for ScriptCursor {
    fn read(&mut self) -> u64 {
        let v = self.s.reading_at(self.pos);
        self.pos += 1;
        v
    }
}

pub const SCRIPT_CLASSES: [&str; 13] = [
    "jittery", "const_delta_prefix", "arith_delta_prefix", "multiples_of_100", "backward_steps",
    "huge_steps", "wrap_u64", "zero_readings", "tiny_jitter", "mixed", "long_stall", "coarse", "staircase",
];

/// number of consecutive stuck measurements aimed at narrow-counter limits
pub const STALL_LENGTHS: [usize; 8] = [254, 255, 256, 257, 65_534, 65_535, 65_536, 65_540];

/// hostile deltas around the i32 / u32 limits
pub const HUGE_DELTAS: [u64; 12] = [
    0x7fff_ffff, 0x8000_0000, 0x8000_0001, 0xffff_ffff, 0x1_0000_0000, 0x1_0000_0001,
    0x8000_0000_0000_0000, 0xffff_ffff_ffff_ffff, 0xffff_ffff_8000_0000, 0x7fff_fffe, 0x1_8000_0000, 1,
];

/// Generate `n` readings of a script class. Readings are what `timer()` returns
/// in order, whatever the caller uses them for.
pub fn gen_script(p: &mut Prng, class: usize, n: usize) -> Vec<u64> {
    let mut v = Vec::with_capacity(n);
    let mut t: u64 = match p.below(4) {
        0 => 1,
        1 => p.u64() >> 20,
        2 => p.u64(),
        _ => 1_000_000_000,
    };
    let k = p.range(4, 30);
    let jitter = |p: &mut Prng| 1 + p.below(1u64 << k);
    match class {
        0 => {
            for _ in 0..n {
                t = t.wrapping_add(jitter(p));
                v.push(t);
            }
        }
        1 => {
            // constant delta for a prefix => stuck by 1st/2nd difference
            let d = p.range(1, 5000);
            let pre = p.below(n as u64 + 1) as usize;
            for i in 0..n {
                t = t.wrapping_add(if i < pre { d } else { jitter(p) });
                v.push(t);
            }
        }
        2 => {
            // arithmetic deltas => third difference zero
            let mut d = p.range(1, 5000);
            let inc = p.range(1, 50);
            let pre = p.below(n as u64 + 1) as usize;
            for i in 0..n {
                if i < pre {
                    d += inc;
                    t = t.wrapping_add(d);
                } else {
                    t = t.wrapping_add(jitter(p));
                }
                v.push(t);
            }
        }
        3 => {
            t -= t % 100;
            for _ in 0..n {
                t = t.wrapping_add(100 * p.range(1, 1000));
                if p.chance(1, 20) {
                    t = t.wrapping_add(p.below(100));
                }
                v.push(t);
            }
        }
        4 => {
            for _ in 0..n {
                if p.chance(1, 6) {
                    t = t.wrapping_sub(p.range(1, 1 << 20));
                } else {
                    t = t.wrapping_add(jitter(p));
                }
                v.push(t);
            }
        }
        5 => {
            for _ in 0..n {
                if p.chance(1, 3) {
                    let d = *p.pick(&HUGE_DELTAS);
                    let fuzz = p.below(3);
                    if p.chance(1, 2) {
                        t = t.wrapping_add(d).wrapping_add(fuzz);
                    } else {
                        t = t.wrapping_sub(d).wrapping_sub(fuzz);
                    }
                } else {
                    t = t.wrapping_add(p.range(1, 9));
                }
                v.push(t);
            }
        }
        6 => {
            t = u64::MAX - p.below(1 << 12);
            for _ in 0..n {
                t = t.wrapping_add(jitter(p) % 997 + 1);
                v.push(t);
            }
        }
        7 => {
            for _ in 0..n {
                t = t.wrapping_add(jitter(p));
                v.push(if p.chance(1, 40) { 0 } else { t });
            }
        }
        8 => {
            // deltas that vary by tiny amounts (stuck / TinyVariations territory)
            let base = p.range(1, 40);
            let amp = p.range(1, 4);
            for _ in 0..n {
                t = t.wrapping_add(base + p.below(amp));
                v.push(t);
            }
        }
        10 => {
            // a short healthy prefix, then a very long run of stuck measurements
            // (frozen, evenly ticking or arithmetic-progression timer), then recovery
            // by the never-stuck tail. `n` is ignored: the length follows the stall.
            let pre = p.range(1, 30) as usize;
            for _ in 0..pre {
                t = t.wrapping_add(jitter(p));
                v.push(t);
            }
            // (interpreter / sanitizer runs only use the short stalls)
            let lens: &[usize] = if crate::util::REDUCED.load(Ordering::Relaxed) { &STALL_LENGTHS[..4] } else { &STALL_LENGTHS };
            let stall = *p.pick(lens) + p.below(3) as usize;
            let kind = p.below(3);
            let step = p.range(1, 1000);
            let mut d = step;
            for _ in 0..3 * stall + 6 {
                match kind {
                    0 => {}
                    1 => t = t.wrapping_add(step),
                    _ => { d += 2; t = t.wrapping_add(d) }
                }
                v.push(t);
            }
        }
        12 => {
            // staircase at MEASUREMENT granularity (a measurement reads the timer three
            // times; only the middle reading is the time stamp): deltas repeat r times and
            // then move on by a constant slope — d, d, 2d, 2d, 3d, 3d … — so repeated
            // deltas are followed by a continuation of the earlier slope
            let d0 = p.range(1, 60);
            let slope = p.range(1, 40);
            let rep = p.range(2, 3);
            let mut d = d0;
            let mut k = 0u64;
            v.push(t); // priming reading of a collection
            while v.len() + 3 <= n {
                v.push(t);
                t = t.wrapping_add(d);
                v.push(t);
                v.push(t);
                k += 1;
                if k % rep == 0 {
                    d += slope;
                }
                if p.chance(1, 60) {
                    d = d0; // restart the staircase now and then
                }
            }
        }
        11 => {
            // coarse clock: the reading only changes every few calls, so
            // consecutive time stamps are often EQUAL (zero deltas), with short stalls
            let hold_max = p.range(2, 7);
            while v.len() < n {
                t = t.wrapping_add(jitter(p));
                let hold = if p.chance(1, 10) { p.range(8, 140) } else { p.range(1, hold_max) };
                for _ in 0..hold {
                    if v.len() < n { v.push(t); }
                }
            }
        }
        _ => {
            let mut i = 0;
            while i < n {
                let c = p.below(9) as usize;
                let len = (p.range(1, 40) as usize).min(n - i);
                let mut part = gen_script(p, c, len);
                // keep continuity half of the time
                if p.chance(1, 2) {
                    let off = t.wrapping_sub(part[0]).wrapping_add(1);
                    part.iter_mut().for_each(|x| *x = x.wrapping_add(off));
                }
                t = *part.last().unwrap();
                v.extend(part);
                i += len;
            }
        }
    }
    v
}

/// numbers of leading all-zero blocks a source delivers: small values and the
/// neighbourhoods of plausible retry bounds
pub const ZERO_BLOCK_COUNTS: [usize; 32] = [
    0, 1, 2, 3, 4, 5, 7, 8, 9, 10, 11, 15, 16, 17, 31, 32, 33, 63, 64, 65, 99, 100, 101, 127, 128, 255, 256, 257, 1000, 1001,
    65_537, 500_000,
];

/// the counts affordable in this run: interpreter / sanitizer runs stop at 257 blocks
pub fn zero_block_counts() -> &'static [usize] {
    if crate::util::REDUCED.load(Ordering::Relaxed) { &ZERO_BLOCK_COUNTS[..28] } else { &ZERO_BLOCK_COUNTS }
}

/// a seed-sized block of documented special content for a type: the
/// zero-seed substitutes (the generator must treat them as ordinary data)
pub fn preset_block(type_name: &str, len: usize) -> Vec<u8> {
    if type_name == "XorShiftRng" {
        std::iter::repeat(0x0BAD_5EEDu32.to_le_bytes()).take(len / 4).flatten().collect()
    } else {
        // xoshiro family: the SplitMix64 stream started at 0 (what the zero seed becomes)
        crate::models::vigna::SplitMix::expand(0, len)
    }
}

// ---------------------------------------------------------------------------
// Instrumented source RNG for from_rng / try_from_rng

#[derive(Clone, Debug, PartialEq, Eq)]
pub enum SrcCall {
    NextU32,
    NextU64,
    Fill(usize),
}

#[derive(Clone, Debug, PartialEq, Eq)]
pub struct SrcError(pub u64);
impl std::fmt::Display for SrcError {
    fn fmt(&self, f: &mut std::fmt::Formatter) -> std::fmt::Result {
        write!(f, "scripted source failure token {}", self.0)
    }
}
impl std::error::Error for SrcError {}

/// Serves one scripted byte stream through all three methods, logs every call,
/// and (as a `TryRngCore`) fails from the `fail_from`-th call on.
pub struct SourceRng {
    pub data: Vec<u8>,
    pub pos: usize,
    pub log: Vec<SrcCall>,
    pub fail_from: Option<usize>,
    pub token: u64,
    pub calls: usize,
    /// bytes handed out by fill_bytes / try_fill_bytes only
    pub filled: Vec<u8>,
    /// a failing call scribbles over part of the caller's buffer (true) or leaves it untouched
    pub scribble: bool,
    /// the failure is transient: only the call with index `fail_from` fails
    pub fail_once: bool,
}

impl SourceRng {
    pub fn new(data: Vec<u8>) -> Self {
        SourceRng { data, pos: 0, log: vec![], fail_from: None, token: 0, calls: 0, filled: vec![], scribble: true, fail_once: false }
    }
    fn take(&mut self, n: usize) -> Vec<u8> {
        let mut out = Vec::with_capacity(n);
        for _ in 0..n {
            // beyond the script: a fixed non-zero pattern so nothing loops forever
            let b = if self.pos < self.data.len() { self.data[self.pos] } else { 0xa5 ^ (self.pos as u8) };
            out.push(b);
            self.pos += 1;
        }
        out
    }
}

impl RngCore for SourceRng {
    fn next_u32(&mut self) -> u32 {
        self.calls += 1;
        self.log.push(SrcCall::NextU32);
        let b = self.take(4);
        u32::from_le_bytes([b[0], b[1], b[2], b[3]])
    }
    fn next_u64(&mut self) -> u64 {
        self.calls += 1;
        self.log.push(SrcCall::NextU64);
        let b = self.take(8);
        u64::from_le_bytes([b[0], b[1], b[2], b[3], b[4], b[5], b[6], b[7]])
    }
    fn fill_bytes(&mut self, dest: &mut [u8]) {
        self.calls += 1;
        self.log.push(SrcCall::Fill(dest.len()));
        let b = self.take(dest.len());
        self.filled.extend_from_slice(&b);
        dest.copy_from_slice(&b);
    }
}

/// Fallible wrapper: a distinct type so that `TryRngCore` is not the blanket
/// implementation for `RngCore`.
pub struct FallibleSource(pub SourceRng);

impl TryRngCore for FallibleSource {
    type Error = SrcError;
    fn try_next_u32(&mut self) -> Result<u32, SrcError> {
        if let Some(f) = self.0.fail_from {
            if (self.0.calls >= f && !self.0.fail_once) || self.0.calls == f {
                self.0.calls += 1;
                return Err(SrcError(self.0.token));
            }
        }
        Ok(self.0.next_u32())
    }
    fn try_next_u64(&mut self) -> Result<u64, SrcError> {
        if let Some(f) = self.0.fail_from {
            if (self.0.calls >= f && !self.0.fail_once) || self.0.calls == f {
                self.0.calls += 1;
                return Err(SrcError(self.0.token));
            }
        }
        Ok(self.0.next_u64())
    }
    fn try_fill_bytes(&mut self, dest: &mut [u8]) -> Result<(), SrcError> {
        if let Some(f) = self.0.fail_from {
            if (self.0.calls >= f && !self.0.fail_once) || self.0.calls == f {
                self.0.calls += 1;
                // a failing source may have scribbled over part of the buffer
                if self.0.scribble {
                    for (i, b) in dest.iter_mut().enumerate() {
                        if i % 3 == 0 {
                            *b = 0x5a;
                        }
                    }
                }
                return Err(SrcError(self.0.token));
            }
        }
        self.0.fill_bytes(dest);
        Ok(())
    }
}

// ---------------------------------------------------------------------------
// Solved timer scripts: one collection whose documented result is a chosen rare
// value. As long as no measurement is stuck, the collected word is an affine
// function over GF(2) of the pool before it and of the bits of the deltas, so
// readings that produce a given word (2^-64 for a random script) are found by
// Gaussian elimination on the reference model.

#[derive(Clone, Copy, Debug, PartialEq, Eq)]
pub enum Target {
    /// the whole word
    Exact(u64),
    /// the upper / lower 32 bits (the other half is left to chance)
    Upper(u32),
    Lower(u32),
    /// upper half equals lower half
    EqualHalves,
}

impl Target {
    pub fn name(&self) -> &'static str {
        match self {
            Target::Exact(0) => "exact_zero",
            Target::Exact(u64::MAX) => "exact_ones",
            Target::Exact(_) => "exact_value",
            Target::Upper(0) => "upper_zero",
            Target::Upper(_) => "upper_value",
            Target::Lower(0) => "lower_zero",
            Target::Lower(_) => "lower_value",
            Target::EqualHalves => "equal_halves",
        }
    }
    /// (mask, value) constraints on g(word), where g is the identity or word ^ (word >> 32)
    fn met(&self, w: u64) -> bool {
        match *self {
            Target::Exact(v) => w == v,
            Target::Upper(v) => (w >> 32) as u32 == v,
            Target::Lower(v) => w as u32 == v,
            Target::EqualHalves => (w >> 32) as u32 == w as u32,
        }
    }
    /// residual that must become zero (linear in the word)
    fn residual(&self, w: u64) -> u64 {
        match *self {
            Target::Exact(v) => w ^ v,
            Target::Upper(v) => (w >> 32) ^ v as u64,
            Target::Lower(v) => (w & 0xffff_ffff) ^ v as u64,
            Target::EqualHalves => (w >> 32) ^ (w & 0xffff_ffff),
        }
    }
}

struct SliceReadings<'a>(&'a [u64], usize);
impl<'a> Readings for SliceReadings<'a> {
    fn read(&mut self) -> u64 {
        // beyond the slice (a stuck measurement made the collection longer than planned):
        // keep the clock running; the caller rejects the attempt by the count of readings
        let v = if self.1 < self.0.len() { self.0[self.1] } else { self.0[self.0.len() - 1].wrapping_add(7919 * (self.1 - self.0.len() + 1) as u64 * (self.1 as u64 % 5 + 1)) };
        self.1 += 1;
        v
    }
}

/// readings of one collection (1 + 3·(rounds+1) of them) from its deltas
fn readings_from_deltas(start: u64, deltas: &[u32]) -> Vec<u64> {
    let mut v = Vec::with_capacity(1 + 3 * deltas.len());
    let mut t = start;
    v.push(t);
    for &d in deltas {
        v.push(t.wrapping_add(1)); // loop-count reading
        t = t.wrapping_add(d as u64);
        v.push(t); // the time stamp
        v.push(t.wrapping_add(2)); // loop-count reading
    }
    v
}

/// Readings for ONE collection of a generator whose pool is `pool0` and whose round
/// count is `rounds`, starting at time `start`, such that the documented result meets
/// `target` and no measurement is stuck. None if no solution was found in a few tries.
pub fn solve_collection(p: &mut Prng, pool0: u64, rounds: u8, start: u64, target: Target) -> Option<Vec<u64>> {
    use crate::models::jitter::{CollectStats, Jitter};
    let n = rounds as usize + 1;
    let run = |deltas: &[u32]| -> (u64, u32, usize) {
        let rd = readings_from_deltas(start, deltas);
        let mut m = Jitter { pool: pool0, rounds, half_pending: false };
        let mut st = CollectStats::default();
        let mut cur = SliceReadings(&rd, 0);
        let w = m.collect(&mut cur, &mut st);
        (w, st.stuck, cur.1)
    };
    for _try in 0..12 {
        // base deltas: an ordinary jittery clock, 2^10 .. 2^21 ns per measurement
        let base: Vec<u32> = (0..n).map(|_| 1024 + p.below(1 << 21) as u32).collect();
        let (w0, stuck0, used0) = run(&base);
        if stuck0 != 0 || used0 != 1 + 3 * n {
            continue;
        }
        // free variables: bits 0..30 of the last (up to) four deltas (the first delta of a
        // collection only primes the stuck test but is folded as well)
        let nd = n.min(4);
        let vars: Vec<(usize, u32)> = (0..nd).flat_map(|k| (0..31u32).map(move |b| (n - 1 - k, b))).collect();
        let cols: Vec<u64> = vars.iter().map(|&(i, b)| {
            let mut d = base.clone();
            d[i] ^= 1 << b;
            target.residual(run(&d).0) ^ target.residual(w0)
        }).collect();
        // solve  XOR_{v in x} cols[v] = residual(w0)  (<= 64 equations, <= 96 unknowns)
        let rhs = target.residual(w0);
        let nv = vars.len();
        let mut rows: Vec<(u128, bool)> = (0..64).map(|e| {
            let mut m = 0u128;
            for (v, c) in cols.iter().enumerate() { if (c >> e) & 1 == 1 { m |= 1u128 << v; } }
            (m, (rhs >> e) & 1 == 1)
        }).collect();
        let mut piv_of_row: Vec<Option<usize>> = vec![None; 64];
        let mut rank = 0usize;
        for v in 0..nv {
            if let Some(pr) = (rank..64).find(|&r| (rows[r].0 >> v) & 1 == 1) {
                rows.swap(rank, pr);
                let pivot = rows[rank];
                for r in 0..64 {
                    if r != rank && (rows[r].0 >> v) & 1 == 1 {
                        rows[r].0 ^= pivot.0;
                        rows[r].1 ^= pivot.1;
                    }
                }
                piv_of_row[rank] = Some(v);
                rank += 1;
                if rank == 64 { break; }
            }
        }
        if rows[rank..].iter().any(|r| r.0 == 0 && r.1) {
            continue; // inconsistent for this base
        }
        // free variables get random values (many different solutions per base)
        let mut x: u128 = ((p.u64() as u128) << 64 | p.u64() as u128) & ((1u128 << nv) - 1);
        for r in 0..rank { if let Some(v) = piv_of_row[r] { x &= !(1u128 << v); } }
        for r in 0..rank {
            if let Some(v) = piv_of_row[r] {
                let others = rows[r].0 & !(1u128 << v);
                let parity = ((others & x).count_ones() & 1 == 1) ^ rows[r].1;
                if parity { x |= 1u128 << v; }
            }
        }
        let mut d = base.clone();
        for (v, &(i, b)) in vars.iter().enumerate() { if (x >> v) & 1 == 1 { d[i] ^= 1 << b; } }
        if d.iter().any(|&k| k == 0) { continue; }
        let (w, stuck, used) = run(&d);
        if stuck == 0 && used == 1 + 3 * n && target.met(w) {
            return Some(readings_from_deltas(start, &d));
        }
    }
    None
}
