//! Reference models of the Blackman–Vigna generators, written from the
//! published C sources (xoroshiro64star.c … xoshiro512starstar.c, splitmix64.c,
//! dsiutils' Mix4 finalizer) in a table-driven style. Nothing here is shared
//! with the crates under test: no macro, no constant table, no helper.

#[derive(Clone, Copy, Debug, PartialEq, Eq)]
pub enum Scr {
    /// s[a] * m  (xoroshiro64*)
    Star { a: usize, m: u64 },
    /// rotl(s[a] * m1, r) * m2
    StarStar { a: usize, m1: u64, r: u32, m2: u64 },
    /// s[a] + s[b]
    Plus { a: usize, b: usize },
    /// rotl(s[a] + s[b], r) + s[a]
    PlusPlus { a: usize, b: usize, r: u32 },
}

#[derive(Clone, Copy, Debug, PartialEq, Eq)]
pub enum Engine {
    /// 2 words: s1 ^= s0; s0 = rotl(s0,a) ^ s1 ^ (s1 << b); s1 = rotl(s1,c)
    Xoroshiro { a: u32, b: u32, c: u32 },
    /// 4 words: t = s1 << a; s2^=s0; s3^=s1; s1^=s2; s0^=s3; s2^=t; s3=rotl(s3,b)
    Xoshiro4 { a: u32, b: u32 },
    /// 8 words (xoshiro512)
    Xoshiro8 { a: u32, b: u32 },
}

#[derive(Clone, Copy, Debug)]
pub struct Def {
    pub name: &'static str,
    pub bits: u32, // word width: 32 or 64
    pub words: usize,
    pub engine: Engine,
    pub scr: Scr,
}

pub const DEFS: [Def; 14] = [
    Def { name: "Xoroshiro64Star", bits: 32, words: 2, engine: Engine::Xoroshiro { a: 26, b: 9, c: 13 }, scr: Scr::Star { a: 0, m: 0x9E3779BB } },
    Def { name: "Xoroshiro64StarStar", bits: 32, words: 2, engine: Engine::Xoroshiro { a: 26, b: 9, c: 13 }, scr: Scr::StarStar { a: 0, m1: 0x9E3779BB, r: 5, m2: 5 } },
    Def { name: "Xoroshiro128Plus", bits: 64, words: 2, engine: Engine::Xoroshiro { a: 24, b: 16, c: 37 }, scr: Scr::Plus { a: 0, b: 1 } },
    Def { name: "Xoroshiro128PlusPlus", bits: 64, words: 2, engine: Engine::Xoroshiro { a: 49, b: 21, c: 28 }, scr: Scr::PlusPlus { a: 0, b: 1, r: 17 } },
    Def { name: "Xoroshiro128StarStar", bits: 64, words: 2, engine: Engine::Xoroshiro { a: 24, b: 16, c: 37 }, scr: Scr::StarStar { a: 0, m1: 5, r: 7, m2: 9 } },
    Def { name: "Xoshiro128Plus", bits: 32, words: 4, engine: Engine::Xoshiro4 { a: 9, b: 11 }, scr: Scr::Plus { a: 0, b: 3 } },
    Def { name: "Xoshiro128PlusPlus", bits: 32, words: 4, engine: Engine::Xoshiro4 { a: 9, b: 11 }, scr: Scr::PlusPlus { a: 0, b: 3, r: 7 } },
    Def { name: "Xoshiro128StarStar", bits: 32, words: 4, engine: Engine::Xoshiro4 { a: 9, b: 11 }, scr: Scr::StarStar { a: 1, m1: 5, r: 7, m2: 9 } },
    Def { name: "Xoshiro256Plus", bits: 64, words: 4, engine: Engine::Xoshiro4 { a: 17, b: 45 }, scr: Scr::Plus { a: 0, b: 3 } },
    Def { name: "Xoshiro256PlusPlus", bits: 64, words: 4, engine: Engine::Xoshiro4 { a: 17, b: 45 }, scr: Scr::PlusPlus { a: 0, b: 3, r: 23 } },
    Def { name: "Xoshiro256StarStar", bits: 64, words: 4, engine: Engine::Xoshiro4 { a: 17, b: 45 }, scr: Scr::StarStar { a: 1, m1: 5, r: 7, m2: 9 } },
    Def { name: "Xoshiro512Plus", bits: 64, words: 8, engine: Engine::Xoshiro8 { a: 11, b: 21 }, scr: Scr::Plus { a: 0, b: 2 } },
    // xoshiro512plusplus.c: rotl(s[0] + s[2], 17) + s[2]
    Def { name: "Xoshiro512PlusPlus", bits: 64, words: 8, engine: Engine::Xoshiro8 { a: 11, b: 21 }, scr: Scr::PlusPlus { a: 2, b: 0, r: 17 } },
    Def { name: "Xoshiro512StarStar", bits: 64, words: 8, engine: Engine::Xoshiro8 { a: 11, b: 21 }, scr: Scr::StarStar { a: 1, m1: 5, r: 7, m2: 9 } },
];

pub fn def(name: &str) -> Option<&'static Def> {
    DEFS.iter().find(|d| d.name == name)
}

#[derive(Clone, Debug, PartialEq, Eq)]
pub struct Vigna {
    pub def_idx: usize,
    /// words are kept in u64 and masked to the word width after every operation
    pub s: Vec<u64>,
}

impl Vigna {
    pub fn def(&self) -> &'static Def {
        &DEFS[self.def_idx]
    }
    fn mask(&self) -> u64 {
        if self.def().bits == 32 {
            0xffff_ffff
        } else {
            u64::MAX
        }
    }
    /// state words = little-endian words of the seed
    pub fn from_seed_bytes(name: &str, seed: &[u8]) -> Vigna {
        let idx = DEFS.iter().position(|d| d.name == name).expect("unknown vigna model");
        let d = &DEFS[idx];
        let wb = (d.bits / 8) as usize;
        assert_eq!(seed.len(), wb * d.words);
        let mut s = Vec::new();
        for w in 0..d.words {
            let mut v = 0u64;
            for k in 0..wb {
                v |= (seed[w * wb + k] as u64) << (8 * k);
            }
            s.push(v);
        }
        Vigna { def_idx: idx, s }
    }
    pub fn state_bytes(&self) -> Vec<u8> {
        let wb = (self.def().bits / 8) as usize;
        let mut out = Vec::new();
        for w in &self.s {
            out.extend_from_slice(&w.to_le_bytes()[..wb]);
        }
        out
    }
    fn rotl(&self, x: u64, r: u32) -> u64 {
        let bits = self.def().bits;
        let m = self.mask();
        let x = x & m;
        let r = r % bits;
        if r == 0 {
            x
        } else {
            ((x << r) | (x >> (bits - r))) & m
        }
    }
    fn output(&self) -> u64 {
        let m = self.mask();
        let s = &self.s;
        match self.def().scr {
            Scr::Star { a, m: mul } => s[a].wrapping_mul(mul) & m,
            Scr::StarStar { a, m1, r, m2 } => {
                let x = s[a].wrapping_mul(m1) & m;
                self.rotl(x, r).wrapping_mul(m2) & m
            }
            Scr::Plus { a, b } => s[a].wrapping_add(s[b]) & m,
            Scr::PlusPlus { a, b, r } => {
                let x = s[a].wrapping_add(s[b]) & m;
                self.rotl(x, r).wrapping_add(s[a]) & m
            }
        }
    }
    fn advance(&mut self) {
        let m = self.mask();
        match self.def().engine {
            Engine::Xoroshiro { a, b, c } => {
                let s0 = self.s[0];
                let mut s1 = self.s[1];
                s1 ^= s0;
                self.s[0] = (self.rotl(s0, a) ^ s1 ^ ((s1 << b) & m)) & m;
                self.s[1] = self.rotl(s1, c);
            }
            Engine::Xoshiro4 { a, b } => {
                let t = (self.s[1] << a) & m;
                self.s[2] ^= self.s[0];
                self.s[3] ^= self.s[1];
                self.s[1] ^= self.s[2];
                self.s[0] ^= self.s[3];
                self.s[2] ^= t;
                self.s[3] = self.rotl(self.s[3], b);
            }
            Engine::Xoshiro8 { a, b } => {
                let t = (self.s[1] << a) & m;
                self.s[2] ^= self.s[0];
                self.s[5] ^= self.s[1];
                self.s[1] ^= self.s[2];
                self.s[7] ^= self.s[3];
                self.s[3] ^= self.s[4];
                self.s[4] ^= self.s[5];
                self.s[0] ^= self.s[6];
                self.s[6] ^= self.s[7];
                self.s[6] ^= t;
                self.s[7] = self.rotl(self.s[7], b);
            }
        }
    }
    /// one reference `next()`: the native-width output word, then the state update
    pub fn next(&mut self) -> u64 {
        let r = self.output();
        self.advance();
        r
    }
    pub fn is_zero(&self) -> bool {
        self.s.iter().all(|&w| w == 0)
    }
}

// --------------------------------------------------------------------------
// splitmix64.c and the Mix4 32-bit finalizer of dsiutils' SplitMix64Random.

#[derive(Clone, Debug, PartialEq, Eq)]
pub struct SplitMix {
    pub x: u64,
}
const GOLDEN_GAMMA: u64 = 0x9e37_79b9_7f4a_7c15;
impl SplitMix {
    pub fn new(x: u64) -> Self {
        SplitMix { x }
    }
    /// splitmix64.c `next()`
    pub fn next_u64(&mut self) -> u64 {
        self.x = self.x.wrapping_add(GOLDEN_GAMMA);
        Self::fin64(self.x)
    }
    /// dsiutils `nextInt()`: same counter step, 32-bit Mix4 finalizer
    pub fn next_u32(&mut self) -> u32 {
        self.x = self.x.wrapping_add(GOLDEN_GAMMA);
        Self::fin32(self.x)
    }
    pub fn fin64(c: u64) -> u64 {
        let mut z = c;
        z = (z ^ (z >> 30)).wrapping_mul(0xbf58_476d_1ce4_e5b9);
        z = (z ^ (z >> 27)).wrapping_mul(0x94d0_49bb_1331_11eb);
        z ^ (z >> 31)
    }
    pub fn fin32(c: u64) -> u32 {
        let mut z = c;
        z = (z ^ (z >> 33)).wrapping_mul(0x62a9_d9ed_7997_05f5);
        z = (z ^ (z >> 28)).wrapping_mul(0xcb24_d0a5_c88c_35b3);
        (z >> 32) as u32
    }
    /// inverse of `fin64` (used to find the u64 whose first SplitMix output is 0)
    pub fn unfin64(mut z: u64) -> u64 {
        fn unxorshift(y: u64, s: u32) -> u64 {
            let mut x = y;
            let mut sh = s;
            while sh < 64 {
                x = y ^ (x >> s);
                sh += s;
            }
            x
        }
        // modular inverses of the two odd multipliers
        fn inv(a: u64) -> u64 {
            let mut x = a; // correct to 3 bits
            for _ in 0..6 {
                x = x.wrapping_mul(2u64.wrapping_sub(a.wrapping_mul(x)));
            }
            x
        }
        z = unxorshift(z, 31);
        z = z.wrapping_mul(inv(0x94d0_49bb_1331_11eb));
        z = unxorshift(z, 27);
        z = z.wrapping_mul(inv(0xbf58_476d_1ce4_e5b9));
        unxorshift(z, 30)
    }
    /// `seed_from_u64` expansion of the xoshiro family: first n bytes of the
    /// SplitMix64 stream started at x (n is a multiple of 8 for all types)
    pub fn expand(x: u64, n: usize) -> Vec<u8> {
        let mut sm = SplitMix::new(x);
        let mut out = Vec::with_capacity(n);
        while out.len() < n {
            let v = sm.next_u64().to_le_bytes();
            let take = (n - out.len()).min(8);
            out.extend_from_slice(&v[..take]);
        }
        out
    }
}

// --------------------------------------------------------------------------
// Marsaglia's xor128 (Xorshift RNGs, 2003, p. 5).

#[derive(Clone, Debug, PartialEq, Eq)]
pub struct Xor128 {
    pub x: u32,
    pub y: u32,
    pub z: u32,
    pub w: u32,
}
impl Xor128 {
    pub fn from_seed_bytes(b: &[u8]) -> Self {
        let g = |i: usize| u32::from_le_bytes([b[i], b[i + 1], b[i + 2], b[i + 3]]);
        Xor128 { x: g(0), y: g(4), z: g(8), w: g(12) }
    }
    pub fn next(&mut self) -> u32 {
        let t = self.x ^ (self.x << 11);
        self.x = self.y;
        self.y = self.z;
        self.z = self.w;
        self.w = self.w ^ (self.w >> 19) ^ t ^ (t >> 8);
        self.w
    }
    pub fn state_bytes(&self) -> Vec<u8> {
        let mut v = Vec::new();
        for w in [self.x, self.y, self.z, self.w] {
            v.extend_from_slice(&w.to_le_bytes());
        }
        v
    }
}

// --------------------------------------------------------------------------
// rand_core's documented `seed_from_u64` default: PCG32 (XSH RR 64/32) with
// multiplier 6364136223846793005 and increment 11634580027462260723, state
// advanced before each output, outputs copied little-endian into the seed.

pub fn pcg32_expand(mut state: u64, n: usize) -> Vec<u8> {
    let mut out = Vec::with_capacity(n + 4);
    while out.len() < n {
        state = state
            .wrapping_mul(6364136223846793005)
            .wrapping_add(11634580027462260723);
        let xorshifted = (((state >> 18) ^ state) >> 27) as u32;
        let rot = (state >> 59) as u32;
        let x = (xorshifted >> rot) | (xorshifted << ((32 - rot) % 32));
        out.extend_from_slice(&x.to_le_bytes());
    }
    out.truncate(n);
    out
}

// --------------------------------------------------------------------------
// Self-test vectors (published; recorded independently of the harness models).

pub fn self_test() -> Result<(), String> {
    // splitmix64.c, seed 1477776061723855037 (vector also quoted in the crate docs)
    let mut sm = SplitMix::new(1477776061723855037);
    let exp = [1985237415132408290u64, 2979275885539914483, 13511426838097143398];
    for e in exp {
        let g = sm.next_u64();
        if g != e {
            return Err(format!("splitmix64 self-test: got {} want {}", g, e));
        }
    }
    // dsiutils SplitMix64Random(10).nextInt()
    let mut sm = SplitMix::new(10);
    for e in [3930361779u32, 4016923089, 4113052479, 925926767] {
        let g = sm.next_u32();
        if g != e {
            return Err(format!("Mix4 self-test: got {} want {}", g, e));
        }
    }
    // inverse finalizer
    for v in [0u64, 1, 0xdead_beef_0bad_f00d, u64::MAX] {
        if SplitMix::fin64(SplitMix::unfin64(v)) != v {
            return Err("splitmix unfin64 is not the inverse of fin64".into());
        }
    }
    // reference vectors from the C programs with state words 1,2,3,…
    let vecs: [(&str, &[u64]); 14] = [
        ("Xoroshiro64Star", &[2654435771, 327208753, 4063491769, 4259754937, 261922412]),
        ("Xoroshiro64StarStar", &[3802928447, 813792938, 1618621494, 2955957307, 3252880261]),
        ("Xoroshiro128Plus", &[3, 412333834243, 2360170716294286339, 9295852285959843169, 2797080929874688578]),
        ("Xoroshiro128PlusPlus", &[393217, 669327710093319, 1732421326133921491, 11394790081659126983, 9555452776773192676]),
        ("Xoroshiro128StarStar", &[5760, 97769243520, 9706862127477703552, 9223447511460779954, 8358291023205304566]),
        ("Xoshiro128Plus", &[5, 12295, 25178119, 27286542, 39879690]),
        ("Xoshiro128PlusPlus", &[641, 1573767, 3222811527, 3517856514, 836907274]),
        ("Xoshiro128StarStar", &[11520, 0, 5927040, 70819200, 2031721883]),
        ("Xoshiro256Plus", &[5, 211106232532999, 211106635186183, 9223759065350669058, 9250833439874351877]),
        ("Xoshiro256PlusPlus", &[41943041, 58720359, 3588806011781223, 3591011842654386, 9228616714210784205]),
        ("Xoshiro256StarStar", &[11520, 0, 1509978240, 1215971899390074240, 1216172134540287360]),
        ("Xoshiro512Plus", &[4, 8, 4113, 25169936, 52776585412635]),
        ("Xoshiro512PlusPlus", &[524291, 1048578, 539099140, 3299073855497, 6917532603230064654]),
        ("Xoshiro512StarStar", &[11520, 0, 23040, 23667840, 144955163520]),
    ];
    for (name, exp) in vecs {
        let d = def(name).unwrap();
        let wb = (d.bits / 8) as usize;
        let mut seed = Vec::new();
        for i in 0..d.words {
            seed.extend_from_slice(&((i + 1) as u64).to_le_bytes()[..wb]);
        }
        let mut m = Vigna::from_seed_bytes(name, &seed);
        for (i, &e) in exp.iter().enumerate() {
            let g = m.next();
            if g != e {
                return Err(format!("{} self-test: output {} got {} want {}", name, i, g, e));
            }
        }
    }
    // Marsaglia xor128 with the state 1,2,3,4
    let mut x = Xor128 { x: 1, y: 2, z: 3, w: 4 };
    for e in [2061u32, 6175, 4, 8224] {
        let g = x.next();
        if g != e {
            return Err(format!("xor128 self-test: got {} want {}", g, e));
        }
    }
    Ok(())
}
