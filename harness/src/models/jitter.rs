//! The Jitterentropy 2.1.0 collection procedure as documented in `rand_jitter`
//! (crate docs, property C12/C16 text), as a function of the timer readings.
//! The timer is an explicit reading source so that the model also predicts how
//! many readings every call consumes.

pub trait Readings {
    fn read(&mut self) -> u64;
}

/// Fibonacci LFSR x^64 + x^61 + x^56 + x^31 + x^28 + x^23 + 1: every bit of the
/// 64-bit time value is XORed into the LSB together with the feedback taps, then
/// the register is rotated by one.
pub fn fold(mut pool: u64, t: u64) -> u64 {
    for i in 0..64 {
        let bit = (t >> i) & 1;
        let mut lsb = (pool & 1) ^ bit;
        // the feedback is computed progressively on the updated register; only
        // bit 0 changes and the taps are all above it, so the order is immaterial
        for tap in [63u32, 60, 55, 30, 27, 22] {
            lsb ^= (pool >> tap) & 1;
        }
        pool = (pool & !1) | lsb;
        pool = pool.rotate_left(1);
    }
    pool
}

pub fn stir(pool: u64) -> u64 {
    let c: u64 = 0x6745_2301_efcd_ab89; // SHA-1 H0 ‖ H1
    let mut m: u64 = 0x98ba_dcfe_1032_5476; // SHA-1 H2 ‖ H3
    for i in 0..64 {
        if (pool >> i) & 1 == 1 {
            m ^= c;
        }
        m = m.rotate_left(1);
    }
    pool ^ m
}

#[derive(Clone, Debug, PartialEq, Eq)]
pub struct Jitter {
    pub pool: u64,
    pub rounds: u8,
    pub half_pending: bool,
}

struct Ec {
    prev: u64,
    d1: i32,
    d2: i32,
}

/// stuck test on (δ, δ', δ'') with wrapping 32-bit arithmetic
fn stuck(ec: &mut Ec, d: i32) -> bool {
    let d2 = ec.d1.wrapping_sub(d);
    let d3 = d2.wrapping_sub(ec.d2);
    ec.d1 = d;
    ec.d2 = d2;
    d == 0 || d2 == 0 || d3 == 0
}

#[derive(Default, Clone, Debug)]
pub struct CollectStats {
    pub measurements: u32,
    pub stuck: u32,
}

impl Jitter {
    pub fn new() -> Self {
        Jitter { pool: 0, rounds: 64, half_pending: false }
    }

    /// one measurement: three readings (loop count, time, loop count)
    fn measure(&mut self, ec: &mut Ec, t: &mut dyn Readings) -> bool {
        let _loop_cnt_mem = t.read();
        let now = t.read();
        let d = now.wrapping_sub(ec.prev) as u32 as i32; // 32-bit truncated delta
        ec.prev = now;
        let _loop_cnt_lfsr = t.read();
        self.pool = fold(self.pool, d as i64 as u64); // sign-extended
        if stuck(ec, d) {
            return false;
        }
        self.pool = self.pool.rotate_left(7);
        true
    }

    pub fn collect(&mut self, t: &mut dyn Readings, st: &mut CollectStats) -> u64 {
        let mut ec = Ec { prev: t.read(), d1: 0, d2: 0 };
        let _ = self.measure(&mut ec, t); // priming, outcome ignored
        st.measurements += 1;
        let mut accepted = 0u32;
        while accepted < self.rounds as u32 {
            st.measurements += 1;
            if self.measure(&mut ec, t) {
                accepted += 1;
            } else {
                st.stuck += 1;
            }
        }
        self.pool = stir(self.pool);
        self.pool
    }

    pub fn next_u64(&mut self, t: &mut dyn Readings, st: &mut CollectStats) -> u64 {
        self.half_pending = false;
        self.collect(t, st)
    }

    pub fn next_u32(&mut self, t: &mut dyn Readings, st: &mut CollectStats) -> u32 {
        if self.half_pending {
            self.half_pending = false;
            (self.pool >> 32) as u32
        } else {
            let v = self.collect(t, st);
            self.half_pending = true;
            v as u32
        }
    }

    /// `fill_bytes` composition documented in C05: n/8 `next_u64`, then one
    /// `next_u64` (tail 5..7) or one `next_u32` (tail 1..4)
    pub fn fill_bytes(&mut self, n: usize, t: &mut dyn Readings, st: &mut CollectStats) -> Vec<u8> {
        let mut out = Vec::with_capacity(n);
        let mut left = n;
        while left >= 8 {
            out.extend_from_slice(&self.next_u64(t, st).to_le_bytes());
            left -= 8;
        }
        if left > 4 {
            out.extend_from_slice(&self.next_u64(t, st).to_le_bytes()[..left]);
        } else if left > 0 {
            out.extend_from_slice(&self.next_u32(t, st).to_le_bytes()[..left]);
        }
        out
    }

    pub fn timer_stats(&mut self, var_rounds: bool, t: &mut dyn Readings) -> i64 {
        let t1 = t.read();
        if var_rounds {
            let _ = t.read();
            let _ = t.read();
        }
        self.pool = fold(self.pool, t1);
        let t2 = t.read();
        t2.wrapping_sub(t1) as i64
    }

    /// `test_timer`: one priming reading, then up to 400 probes of four readings
    /// (first time stamp, two loop-count readings, second time stamp); the first
    /// time stamp of every probe is folded into the pool. Stops early at a zero
    /// reading or a zero 32-bit delta. Returns the number of probes executed.
    /// (The verdict it returns is C13's subject and not modelled here.)
    pub fn test_timer_effect(&mut self, t: &mut dyn Readings) -> usize {
        let _prime = t.read();
        for i in 0..400 {
            let t1 = t.read();
            let _ = t.read();
            let _ = t.read();
            self.pool = fold(self.pool, t1);
            let t2 = t.read();
            if t1 == 0 || t2 == 0 {
                return i + 1;
            }
            if t2.wrapping_sub(t1) as u32 == 0 {
                return i + 1;
            }
        }
        400
    }

    /// what a clone is: same pool and rounds, no pending half
    pub fn clone_model(&self) -> Jitter {
        Jitter { pool: self.pool, rounds: self.rounds, half_pending: false }
    }
}

pub fn self_test() -> Result<(), String> {
    // The LFSR is linear: fold(a^b, s^t) = fold(a,s) ^ fold(b,t); and a known
    // hand-computed value: folding t = 1 into pool 0 puts the bit in at step 0
    // and then shifts it 64 times with feedback.
    let a = 0x0123_4567_89ab_cdefu64;
    let b = 0xfeed_face_cafe_beefu64;
    if fold(a ^ b, 5 ^ 9) != fold(a, 5) ^ fold(b, 9) {
        return Err("jitter model: fold is not linear".into());
    }
    if fold(0, 0) != 0 {
        return Err("jitter model: fold(0,0) != 0".into());
    }
    // stir of 0 is the initial mixer rotated 64 times = itself
    if stir(0) != 0x98ba_dcfe_1032_5476 {
        return Err("jitter model: stir(0)".into());
    }
    Ok(())
}
