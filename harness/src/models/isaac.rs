//! Straight ports of Bob Jenkins' `rand.c` (ISAAC) and `isaac64.c` (ISAAC-64):
//! `randinit(flag)` with the golden ratio mixed four times at run time, one
//! 256-iteration loop per block with `i % 4` mix selection and `(i+128) % 256`,
//! and results consumed from index 255 downwards (`randrsl[--randcnt]`).

const N: usize = 256;

#[derive(Clone)]
pub struct Isaac32 {
    pub mm: [u32; N],
    pub aa: u32,
    pub bb: u32,
    pub cc: u32,
    pub rsl: [u32; N],
    pub cnt: usize,
}

fn mix32(s: &mut [u32; 8]) {
    let [a, b, c, d, e, f, g, h] = s;
    *a ^= *b << 11; *d = d.wrapping_add(*a); *b = b.wrapping_add(*c);
    *b ^= *c >> 2;  *e = e.wrapping_add(*b); *c = c.wrapping_add(*d);
    *c ^= *d << 8;  *f = f.wrapping_add(*c); *d = d.wrapping_add(*e);
    *d ^= *e >> 16; *g = g.wrapping_add(*d); *e = e.wrapping_add(*f);
    *e ^= *f << 10; *h = h.wrapping_add(*e); *f = f.wrapping_add(*g);
    *f ^= *g >> 4;  *a = a.wrapping_add(*f); *g = g.wrapping_add(*h);
    *g ^= *h << 8;  *b = b.wrapping_add(*g); *h = h.wrapping_add(*a);
    *h ^= *a >> 9;  *c = c.wrapping_add(*h); *a = a.wrapping_add(*b);
}

impl Isaac32 {
    /// `randinit(ctx, flag)` with `randrsl` = `seed_words` zero-extended.
    /// flag = true: two passes using the seed; flag = false: seed ignored.
    /// `passes` generalises this: 1 pass over the seed array (the crate's
    /// documented `seed_from_u64`), or the reference's 2 passes.
    pub fn randinit(seed_words: &[u32], passes: u32) -> Isaac32 {
        let mut r = [0u32; N];
        r[..seed_words.len()].copy_from_slice(seed_words);
        let mut s = [0x9e37_79b9u32; 8]; // the golden ratio
        for _ in 0..4 {
            mix32(&mut s); // scramble it
        }
        let mut mm = [0u32; N];
        // first pass: fill mm[] with messy stuff, using the seed
        for i in (0..N).step_by(8) {
            for k in 0..8 {
                s[k] = s[k].wrapping_add(r[i + k]);
            }
            mix32(&mut s);
            mm[i..i + 8].copy_from_slice(&s);
        }
        if passes >= 2 {
            // second pass: make all of the seed affect all of mm
            for i in (0..N).step_by(8) {
                for k in 0..8 {
                    s[k] = s[k].wrapping_add(mm[i + k]);
                }
                mix32(&mut s);
                mm[i..i + 8].copy_from_slice(&s);
            }
        }
        let mut ctx = Isaac32 { mm, aa: 0, bb: 0, cc: 0, rsl: [0; N], cnt: 0 };
        ctx.isaac(); // fill in the first set of results
        ctx.cnt = N; // prepare to use the first set of results
        ctx
    }

    pub fn isaac(&mut self) {
        self.cc = self.cc.wrapping_add(1); // cc just gets incremented once per 256 results
        self.bb = self.bb.wrapping_add(self.cc); // then combined with bb
        for i in 0..N {
            let x = self.mm[i];
            self.aa = match i % 4 {
                0 => self.aa ^ (self.aa << 13),
                1 => self.aa ^ (self.aa >> 6),
                2 => self.aa ^ (self.aa << 2),
                _ => self.aa ^ (self.aa >> 16),
            };
            self.aa = self.mm[(i + 128) % N].wrapping_add(self.aa);
            let y = self.mm[((x >> 2) as usize) % N].wrapping_add(self.aa).wrapping_add(self.bb);
            self.mm[i] = y;
            self.bb = self.mm[((y >> 10) as usize) % N].wrapping_add(x);
            self.rsl[i] = self.bb;
        }
    }

    /// the reference `rand(ctx)` macro
    pub fn next(&mut self) -> u32 {
        if self.cnt == 0 {
            self.isaac();
            self.cnt = N;
        }
        self.cnt -= 1;
        self.rsl[self.cnt]
    }
}

#[derive(Clone)]
pub struct Isaac64 {
    pub mm: [u64; N],
    pub aa: u64,
    pub bb: u64,
    pub cc: u64,
    pub rsl: [u64; N],
    pub cnt: usize,
}

fn mix64(s: &mut [u64; 8]) {
    let [a, b, c, d, e, f, g, h] = s;
    *a = a.wrapping_sub(*e); *f ^= *h >> 9;  *h = h.wrapping_add(*a);
    *b = b.wrapping_sub(*f); *g ^= *a << 9;  *a = a.wrapping_add(*b);
    *c = c.wrapping_sub(*g); *h ^= *b >> 23; *b = b.wrapping_add(*c);
    *d = d.wrapping_sub(*h); *a ^= *c << 15; *c = c.wrapping_add(*d);
    *e = e.wrapping_sub(*a); *b ^= *d >> 14; *d = d.wrapping_add(*e);
    *f = f.wrapping_sub(*b); *c ^= *e << 20; *e = e.wrapping_add(*f);
    *g = g.wrapping_sub(*c); *d ^= *f >> 17; *f = f.wrapping_add(*g);
    *h = h.wrapping_sub(*d); *e ^= *g << 14; *g = g.wrapping_add(*h);
}

impl Isaac64 {
    pub fn randinit(seed_words: &[u64], passes: u32) -> Isaac64 {
        let mut r = [0u64; N];
        r[..seed_words.len()].copy_from_slice(seed_words);
        let mut s = [0x9e37_79b9_7f4a_7c13u64; 8];
        for _ in 0..4 {
            mix64(&mut s);
        }
        let mut mm = [0u64; N];
        for i in (0..N).step_by(8) {
            for k in 0..8 {
                s[k] = s[k].wrapping_add(r[i + k]);
            }
            mix64(&mut s);
            mm[i..i + 8].copy_from_slice(&s);
        }
        if passes >= 2 {
            for i in (0..N).step_by(8) {
                for k in 0..8 {
                    s[k] = s[k].wrapping_add(mm[i + k]);
                }
                mix64(&mut s);
                mm[i..i + 8].copy_from_slice(&s);
            }
        }
        let mut ctx = Isaac64 { mm, aa: 0, bb: 0, cc: 0, rsl: [0; N], cnt: 0 };
        ctx.isaac64();
        ctx.cnt = N;
        ctx
    }

    pub fn isaac64(&mut self) {
        self.cc = self.cc.wrapping_add(1);
        self.bb = self.bb.wrapping_add(self.cc);
        for i in 0..N {
            let x = self.mm[i];
            self.aa = match i % 4 {
                0 => !(self.aa ^ (self.aa << 21)),
                1 => self.aa ^ (self.aa >> 5),
                2 => self.aa ^ (self.aa << 12),
                _ => self.aa ^ (self.aa >> 33),
            };
            self.aa = self.aa.wrapping_add(self.mm[(i + 128) % N]);
            let y = self.mm[((x >> 3) as usize) % N].wrapping_add(self.aa).wrapping_add(self.bb);
            self.mm[i] = y;
            self.bb = self.mm[((y >> 11) as usize) % N].wrapping_add(x);
            self.rsl[i] = self.bb;
        }
    }

    pub fn next(&mut self) -> u64 {
        if self.cnt == 0 {
            self.isaac64();
            self.cnt = N;
        }
        self.cnt -= 1;
        self.rsl[self.cnt]
    }
}

fn le32(seed: &[u8]) -> Vec<u32> {
    seed.chunks(4).map(|c| u32::from_le_bytes([c[0], c[1], c[2], c[3]])).collect()
}
fn le64(seed: &[u8]) -> Vec<u64> {
    seed.chunks(8)
        .map(|c| u64::from_le_bytes([c[0], c[1], c[2], c[3], c[4], c[5], c[6], c[7]]))
        .collect()
}

/// `IsaacRng::from_seed`: LE words in the first 8 slots, `randinit(TRUE)`
pub fn isaac32_from_seed(seed: &[u8]) -> Isaac32 {
    Isaac32::randinit(&le32(seed), 2)
}
pub fn isaac64_from_seed(seed: &[u8]) -> Isaac64 {
    Isaac64::randinit(&le64(seed), 2)
}
/// documented `seed_from_u64`: x in the first key words, one initialisation pass
pub fn isaac32_from_u64(x: u64) -> Isaac32 {
    Isaac32::randinit(&[x as u32, (x >> 32) as u32], 1)
}
pub fn isaac64_from_u64(x: u64) -> Isaac64 {
    Isaac64::randinit(&[x], 1)
}
/// documented `from_rng`: 1024 resp. 2048 source bytes as the whole key, two passes
pub fn isaac32_from_key_bytes(b: &[u8]) -> Isaac32 {
    assert_eq!(b.len(), 1024);
    Isaac32::randinit(&le32(b), 2)
}
pub fn isaac64_from_key_bytes(b: &[u8]) -> Isaac64 {
    assert_eq!(b.len(), 2048);
    Isaac64::randinit(&le64(b), 2)
}

/// Jenkins' published `randvect.txt` starts f650e4c8 e448e96d 98db2fb4 f5fad54f
/// (rand.c main: zero seed, randinit(TRUE), results printed from index 0), and
/// the ISAAC-64 test output of isaac64.c starts 12a8f216af9418c2 d4490ad526f14431
/// b49c3b3995091a36 5b45e522e4b1b4ef.
pub fn self_test() -> Result<(), String> {
    // rand.c main() calls isaac() once more after randinit() before printing
    let mut m = Isaac32::randinit(&[], 2);
    m.isaac();
    let exp = [0xf650e4c8u32, 0xe448e96d, 0x98db2fb4, 0xf5fad54f];
    for (i, &e) in exp.iter().enumerate() {
        if m.rsl[i] != e {
            return Err(format!("isaac model self-test: randrsl[{}] = {:08x}, want {:08x}", i, m.rsl[i], e));
        }
    }
    let mut m = Isaac64::randinit(&[], 2);
    m.isaac64();
    let exp = [0x12a8f216af9418c2u64, 0xd4490ad526f14431, 0xb49c3b3995091a36, 0x5b45e522e4b1b4ef];
    for (i, &e) in exp.iter().enumerate() {
        if m.rsl[i] != e {
            return Err(format!("isaac64 model self-test: randrsl[{}] = {:016x}, want {:016x}", i, m.rsl[i], e));
        }
    }
    Ok(())
}
