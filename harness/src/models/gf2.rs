//! Dense GF(2) matrices (rows as bit vectors of u64 limbs) for the monitors
//! that work on observed transition maps (C06, C07, C15).

#[derive(Clone, PartialEq, Eq, Debug)]
pub struct BitVec {
    pub n: usize,
    pub w: Vec<u64>,
}
impl BitVec {
    pub fn zero(n: usize) -> Self {
        BitVec { n, w: vec![0; (n + 63) / 64] }
    }
    pub fn from_bytes(b: &[u8]) -> Self {
        let n = b.len() * 8;
        let mut v = BitVec::zero(n);
        for (i, &x) in b.iter().enumerate() {
            v.w[i / 8] |= (x as u64) << (8 * (i % 8));
        }
        v
    }
    pub fn to_bytes(&self) -> Vec<u8> {
        (0..self.n / 8).map(|i| (self.w[i / 8] >> (8 * (i % 8))) as u8).collect()
    }
    pub fn get(&self, i: usize) -> bool {
        (self.w[i / 64] >> (i % 64)) & 1 == 1
    }
    pub fn set(&mut self, i: usize, v: bool) {
        if v {
            self.w[i / 64] |= 1 << (i % 64)
        } else {
            self.w[i / 64] &= !(1 << (i % 64))
        }
    }
    pub fn xor_in(&mut self, o: &BitVec) {
        for (a, b) in self.w.iter_mut().zip(o.w.iter()) {
            *a ^= *b;
        }
    }
    pub fn is_zero(&self) -> bool {
        self.w.iter().all(|&x| x == 0)
    }
    pub fn unit(n: usize, i: usize) -> Self {
        let mut v = BitVec::zero(n);
        v.set(i, true);
        v
    }
}

/// Column-major: `cols[i]` is the image of basis vector e_i.
#[derive(Clone, PartialEq, Eq, Debug)]
pub struct Mat {
    pub n: usize,
    pub cols: Vec<BitVec>,
}
impl Mat {
    pub fn identity(n: usize) -> Self {
        Mat { n, cols: (0..n).map(|i| BitVec::unit(n, i)).collect() }
    }
    /// M·v = XOR of the columns selected by the bits of v
    pub fn apply(&self, v: &BitVec) -> BitVec {
        let mut out = BitVec::zero(self.n);
        for i in 0..self.n {
            if v.get(i) {
                out.xor_in(&self.cols[i]);
            }
        }
        out
    }
    /// (self ∘ other): first `other`, then `self`
    pub fn mul(&self, other: &Mat) -> Mat {
        Mat { n: self.n, cols: other.cols.iter().map(|c| self.apply(c)).collect() }
    }
    pub fn square(&self) -> Mat {
        self.mul(self)
    }
    /// self^(2^k)
    pub fn pow2k(&self, k: u32) -> Mat {
        let mut m = self.clone();
        for _ in 0..k {
            m = m.square();
        }
        m
    }
    pub fn rank(&self) -> usize {
        let mut rows: Vec<BitVec> = self.cols.clone();
        let mut rank = 0;
        for bit in 0..self.n {
            if let Some(p) = (rank..rows.len()).find(|&r| rows[r].get(bit)) {
                rows.swap(rank, p);
                let pivot = rows[rank].clone();
                for r in 0..rows.len() {
                    if r != rank && rows[r].get(bit) {
                        rows[r].xor_in(&pivot);
                    }
                }
                rank += 1;
            }
        }
        rank
    }
    /// inverse over GF(2) (None if singular)
    pub fn inverse(&self) -> Option<Mat> {
        let n = self.n;
        // work on rows of [M | I]; M[r][c] = cols[c].get(r)
        let mut a: Vec<BitVec> = (0..n).map(|r| { let mut v = BitVec::zero(2 * n); for c in 0..n { if self.cols[c].get(r) { v.set(c, true); } } v.set(n + r, true); v }).collect();
        for c in 0..n {
            let p = (c..n).find(|&r| a[r].get(c))?;
            a.swap(c, p);
            let piv = a[c].clone();
            for r in 0..n {
                if r != c && a[r].get(c) {
                    a[r].xor_in(&piv);
                }
            }
        }
        // inverse rows are the right halves; convert to columns
        let mut cols: Vec<BitVec> = (0..n).map(|_| BitVec::zero(n)).collect();
        for r in 0..n {
            for c in 0..n {
                if a[r].get(n + c) {
                    cols[c].set(r, true);
                }
            }
        }
        Some(Mat { n, cols })
    }
    /// column-wise sum (XOR) of two matrices
    pub fn add(&self, o: &Mat) -> Mat {
        Mat { n: self.n, cols: self.cols.iter().zip(o.cols.iter()).map(|(a, b)| { let mut c = a.clone(); c.xor_in(b); c }).collect() }
    }
    /// basis of { v : (M·v)[r] = 0 for every r in rows }
    pub fn kernel_on_rows(&self, rows: &[usize]) -> Vec<BitVec> {
        let n = self.n;
        // one equation per selected row: its coefficients are that row of M
        let mut eqs: Vec<BitVec> = rows.iter().map(|&r| { let mut e = BitVec::zero(n); for c in 0..n { if self.cols[c].get(r) { e.set(c, true); } } e }).collect();
        let mut pivots: Vec<usize> = Vec::new();
        let mut rank = 0;
        for c in 0..n {
            if rank == eqs.len() { break; }
            if let Some(pr) = (rank..eqs.len()).find(|&r| eqs[r].get(c)) {
                eqs.swap(rank, pr);
                let pv = eqs[rank].clone();
                for r in 0..eqs.len() {
                    if r != rank && eqs[r].get(c) { eqs[r].xor_in(&pv); }
                }
                pivots.push(c);
                rank += 1;
            }
        }
        let is_pivot: std::collections::HashSet<usize> = pivots.iter().copied().collect();
        let mut basis = Vec::new();
        for f in 0..n {
            if is_pivot.contains(&f) { continue; }
            let mut v = BitVec::zero(n);
            v.set(f, true);
            for (r, &pc) in pivots.iter().enumerate() {
                if eqs[r].get(f) { v.set(pc, true); }
            }
            basis.push(v);
        }
        basis
    }
    pub fn hex_cols(&self) -> Vec<String> {
        self.cols.iter().map(|c| crate::util::hex(&c.to_bytes())).collect()
    }
}
