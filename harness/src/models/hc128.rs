//! HC-128 written directly from Hongjun Wu, "The Stream Cipher HC-128":
//! separate tables P and Q, the 1280-word expansion W, 1024 set-up steps and
//! one keystream word per step with every index reduced mod 512 per step.
//! Deliberately naive (no unrolling, no shared table, no cached offsets).

fn rotr(x: u32, n: u32) -> u32 {
    (x >> n) | (x << (32 - n))
}
fn rotl(x: u32, n: u32) -> u32 {
    (x << n) | (x >> (32 - n))
}
fn f1(x: u32) -> u32 {
    rotr(x, 7) ^ rotr(x, 18) ^ (x >> 3)
}
fn f2(x: u32) -> u32 {
    rotr(x, 17) ^ rotr(x, 19) ^ (x >> 10)
}
fn g1(x: u32, y: u32, z: u32) -> u32 {
    (rotr(x, 10) ^ rotr(z, 23)).wrapping_add(rotr(y, 8))
}
fn g2(x: u32, y: u32, z: u32) -> u32 {
    (rotl(x, 10) ^ rotl(z, 23)).wrapping_add(rotl(y, 8))
}
/// i ⊟ j = (i − j) mod 512
fn sub(i: usize, j: usize) -> usize {
    (i + 512 - (j % 512)) % 512
}

#[derive(Clone)]
pub struct Hc128 {
    pub p: [u32; 512],
    pub q: [u32; 512],
    /// step counter i of the paper (never reduced; the phase is i mod 1024)
    pub i: u64,
}

impl Hc128 {
    fn h1(&self, x: u32) -> u32 {
        let x0 = (x & 0xff) as usize;
        let x2 = ((x >> 16) & 0xff) as usize;
        self.q[x0].wrapping_add(self.q[256 + x2])
    }
    fn h2(&self, x: u32) -> u32 {
        let x0 = (x & 0xff) as usize;
        let x2 = ((x >> 16) & 0xff) as usize;
        self.p[x0].wrapping_add(self.p[256 + x2])
    }

    /// key = seed[0..16], iv = seed[16..32], both as little-endian 32-bit words
    pub fn new(seed: &[u8]) -> Hc128 {
        assert_eq!(seed.len(), 32);
        let word = |o: usize| u32::from_le_bytes([seed[o], seed[o + 1], seed[o + 2], seed[o + 3]]);
        let mut k = [0u32; 8];
        let mut iv = [0u32; 8];
        for i in 0..4 {
            k[i] = word(4 * i);
            k[i + 4] = k[i];
            iv[i] = word(16 + 4 * i);
            iv[i + 4] = iv[i];
        }
        let mut w = vec![0u32; 1280];
        for i in 0..8 {
            w[i] = k[i];
        }
        for i in 8..16 {
            w[i] = iv[i - 8];
        }
        for i in 16..1280 {
            w[i] = f2(w[i - 2])
                .wrapping_add(w[i - 7])
                .wrapping_add(f1(w[i - 15]))
                .wrapping_add(w[i - 16])
                .wrapping_add(i as u32);
        }
        let mut s = Hc128 { p: [0; 512], q: [0; 512], i: 0 };
        for i in 0..512 {
            s.p[i] = w[i + 256];
            s.q[i] = w[i + 768];
        }
        // run the cipher 1024 steps, the outputs replace the table elements
        for i in 0..512 {
            let v = s.p[i].wrapping_add(g1(s.p[sub(i, 3)], s.p[sub(i, 10)], s.p[sub(i, 511)]));
            s.p[i] = v ^ s.h1(s.p[sub(i, 12)]);
        }
        for i in 0..512 {
            let v = s.q[i].wrapping_add(g2(s.q[sub(i, 3)], s.q[sub(i, 10)], s.q[sub(i, 511)]));
            s.q[i] = v ^ s.h2(s.q[sub(i, 12)]);
        }
        s
    }

    /// one keystream word
    pub fn next(&mut self) -> u32 {
        let j = (self.i % 512) as usize;
        let out;
        if self.i % 1024 < 512 {
            self.p[j] = self.p[j].wrapping_add(g1(
                self.p[sub(j, 3)],
                self.p[sub(j, 10)],
                self.p[sub(j, 511)],
            ));
            out = self.h1(self.p[sub(j, 12)]) ^ self.p[j];
        } else {
            self.q[j] = self.q[j].wrapping_add(g2(
                self.q[sub(j, 3)],
                self.q[sub(j, 10)],
                self.q[sub(j, 511)],
            ));
            out = self.h2(self.q[sub(j, 12)]) ^ self.q[j];
        }
        self.i += 1;
        out
    }

    /// secret words (for the C17 leak scan)
    pub fn table_words(&self) -> Vec<u32> {
        self.p.iter().chain(self.q.iter()).copied().collect()
    }
}

/// The three test vectors of the paper (section "Test vectors of HC-128").
pub fn self_test() -> Result<(), String> {
    let mut seed = [0u8; 32];
    let v1: [u32; 16] = [
        0x73150082, 0x3bfd03a0, 0xfb2fd77f, 0xaa63af0e, 0xde122fc6, 0xa7dc29b6, 0x62a68527,
        0x8b75ec68, 0x9036db1e, 0x81896005, 0x00ade078, 0x491fbf9a, 0x1cdc3013, 0x6c3d6e24,
        0x90f664b2, 0x9cd57102,
    ];
    let v2: [u32; 16] = [
        0xc01893d5, 0xb7dbe958, 0x8f65ec98, 0x64176604, 0x36fc6724, 0xc82c6eec, 0x1b1c38a7,
        0xc9b42a95, 0x323ef123, 0x0a6a908b, 0xce757b68, 0x9f14f7bb, 0xe4cde011, 0xaeb5173f,
        0x89608c94, 0xb5cf46ca,
    ];
    let v3: [u32; 16] = [
        0x518251a4, 0x04b4930a, 0xb02af931, 0x0639f032, 0xbcb4a47a, 0x5722480b, 0x2bf99f72,
        0xcdc0e566, 0x310f0c56, 0xd3cc83e8, 0x663db8ef, 0x62dfe07f, 0x593e1790, 0xc5ceaa9c,
        0xab03806f, 0xc9a6e5a0,
    ];
    let run = |seed: &[u8; 32], exp: &[u32; 16], name: &str| -> Result<(), String> {
        let mut m = Hc128::new(seed);
        for (i, &e) in exp.iter().enumerate() {
            let g = m.next();
            if g != e {
                return Err(format!("hc128 model self-test {}: word {} got {:08x} want {:08x}", name, i, g, e));
            }
        }
        Ok(())
    };
    run(&seed, &v1, "vector1(key=0,iv=0)")?;
    seed[16] = 1;
    run(&seed, &v2, "vector2(key=0,iv=1)")?;
    seed[16] = 0;
    seed[0] = 0x55;
    run(&seed, &v3, "vector3(key=0x55,iv=0)")?;
    Ok(())
}
