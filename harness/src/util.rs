//! Shared infrastructure: the harness's own PRNG (never the crates under test),
//! hashing, hex helpers, the report type and the worker pool.

use serde_json::{json, Value};
use std::collections::{BTreeMap, HashSet};
use std::sync::Mutex;

/// SplitMix-style stream used for every random choice of the harness.
/// Written here from scratch so that the workload does not depend on the code
/// under test.
#[derive(Clone, Debug)]
pub struct Prng(pub u64);

impl Prng {
    pub fn new(seed: u64) -> Self {
        Prng(seed ^ 0x6a09e667f3bcc908)
    }
    pub fn derive(seed: u64, a: u64, b: u64) -> Self {
        let mut p = Prng::new(seed);
        p.0 = p.0.wrapping_add(a.wrapping_mul(0x9e3779b97f4a7c15));
        let _ = p.u64();
        p.0 ^= b.wrapping_mul(0xd1342543de82ef95);
        let _ = p.u64();
        p
    }
    pub fn u64(&mut self) -> u64 {
        self.0 = self.0.wrapping_add(0x9e3779b97f4a7c15);
        let mut z = self.0;
        z = (z ^ (z >> 30)).wrapping_mul(0xbf58476d1ce4e5b9);
        z = (z ^ (z >> 27)).wrapping_mul(0x94d049bb133111eb);
        z ^ (z >> 31)
    }
    pub fn u32(&mut self) -> u32 {
        (self.u64() >> 32) as u32
    }
    /// uniform in 0..n (n > 0); modulo bias is irrelevant for workload choice
    pub fn below(&mut self, n: u64) -> u64 {
        debug_assert!(n > 0);
        self.u64() % n
    }
    pub fn range(&mut self, lo: u64, hi_incl: u64) -> u64 {
        lo + self.below(hi_incl - lo + 1)
    }
    pub fn chance(&mut self, num: u64, den: u64) -> bool {
        self.below(den) < num
    }
    pub fn fill(&mut self, b: &mut [u8]) {
        for c in b.chunks_mut(8) {
            let v = self.u64().to_le_bytes();
            c.copy_from_slice(&v[..c.len()]);
        }
    }
    pub fn bytes(&mut self, n: usize) -> Vec<u8> {
        let mut v = vec![0u8; n];
        self.fill(&mut v);
        v
    }
    pub fn pick<'a, T>(&mut self, xs: &'a [T]) -> &'a T {
        &xs[self.below(xs.len() as u64) as usize]
    }
}

/// FNV-1a 64, for coverage keys and digests.
#[derive(Clone, Copy)]
pub struct Fnv(pub u64);
impl Default for Fnv {
    fn default() -> Self {
        Fnv(0xcbf29ce484222325)
    }
}
impl Fnv {
    pub fn new() -> Self {
        Self::default()
    }
    pub fn byte(&mut self, b: u8) {
        self.0 ^= b as u64;
        self.0 = self.0.wrapping_mul(0x100000001b3);
    }
    pub fn bytes(&mut self, bs: &[u8]) {
        for &b in bs {
            self.byte(b)
        }
    }
    pub fn u64(&mut self, v: u64) {
        self.bytes(&v.to_le_bytes())
    }
    pub fn str(&mut self, s: &str) {
        self.bytes(s.as_bytes());
        self.byte(0xff)
    }
    pub fn get(&self) -> u64 {
        // final avalanche so that close inputs give unrelated keys
        let mut z = self.0;
        z = (z ^ (z >> 32)).wrapping_mul(0xd6e8feb86659fd93);
        z ^ (z >> 32)
    }
}
pub fn hkey(parts: &[&dyn AsKey]) -> u64 {
    let mut h = Fnv::new();
    for p in parts {
        p.feed(&mut h);
    }
    h.get()
}
pub trait AsKey {
    fn feed(&self, h: &mut Fnv);
}
impl AsKey for u64 {
    fn feed(&self, h: &mut Fnv) {
        h.u64(*self)
    }
}
impl AsKey for usize {
    fn feed(&self, h: &mut Fnv) {
        h.u64(*self as u64)
    }
}
impl AsKey for &str {
    fn feed(&self, h: &mut Fnv) {
        h.str(self)
    }
}
impl AsKey for String {
    fn feed(&self, h: &mut Fnv) {
        h.str(self)
    }
}
impl AsKey for [u8] {
    fn feed(&self, h: &mut Fnv) {
        h.bytes(self);
        h.byte(0xfe)
    }
}
impl AsKey for Vec<u8> {
    fn feed(&self, h: &mut Fnv) {
        h.bytes(self);
        h.byte(0xfe)
    }
}

pub fn hex(b: &[u8]) -> String {
    const D: &[u8; 16] = b"0123456789abcdef";
    let mut s = String::with_capacity(b.len() * 2);
    for x in b {
        s.push(D[(x >> 4) as usize] as char);
        s.push(D[(x & 15) as usize] as char);
    }
    s
}
pub fn unhex(s: &str) -> Vec<u8> {
    (0..s.len() / 2)
        .map(|i| u8::from_str_radix(&s[2 * i..2 * i + 2], 16).unwrap())
        .collect()
}
pub fn hx64(v: u64) -> String {
    format!("0x{:016x}", v)
}
pub fn hx32(v: u32) -> String {
    format!("0x{:08x}", v)
}

/// set by the binary when --scale < 1
pub static REDUCED: std::sync::atomic::AtomicBool = std::sync::atomic::AtomicBool::new(false);

#[derive(Clone, Debug)]
pub struct Violation {
    /// stable description of WHAT failed (no random input in it)
    pub signature: String,
    /// sub-monitor and case id: enough to regenerate the case
    pub sub: String,
    pub id: u64,
    /// human-readable expansion of the case and the divergence
    pub detail: Value,
}

/// What one monitor run observed.
#[derive(Default, Debug)]
pub struct Report {
    pub evaluations: u64,
    pub distinct: HashSet<u64>,
    pub cov: BTreeMap<String, u64>,
    pub samples: Vec<Value>,
    pub violations: Vec<Violation>,
    pub inconclusive: Vec<String>,
    pub notes: Vec<String>,
    pub cases: u64,
    /// structured data recorded for offline checkers (e.g. observed matrices)
    pub data: BTreeMap<String, Value>,
}

pub const MAX_VIOLATIONS_KEPT: usize = 40;

impl Report {
    pub fn new() -> Self {
        Self::default()
    }
    /// one oracle comparison
    #[inline]
    pub fn eval(&mut self) {
        self.evaluations += 1;
    }
    #[inline]
    pub fn evals(&mut self, n: u64) {
        self.evaluations += n;
    }
    /// register a non-trivial case under its distinctness key
    pub fn distinct(&mut self, key: u64) {
        self.distinct.insert(key);
    }
    pub fn cov(&mut self, k: &str) {
        *self.cov.entry(k.to_string()).or_insert(0) += 1;
    }
    pub fn covn(&mut self, k: &str, n: u64) {
        *self.cov.entry(k.to_string()).or_insert(0) += n;
    }
    pub fn cov_get(&self, k: &str) -> u64 {
        self.cov.get(k).copied().unwrap_or(0)
    }
    pub fn wants_sample(&self) -> bool {
        self.samples.len() < 6
    }
    pub fn sample(&mut self, v: Value) {
        if self.samples.len() < 6 {
            self.samples.push(v);
        }
    }
    pub fn violation(&mut self, signature: String, sub: &str, id: u64, detail: Value) {
        // keep the first witness of each signature, and a bounded number overall
        self.cov(&format!("violation:{}", signature));
        if self.violations.iter().filter(|v| v.signature == signature).count() >= 3 {
            return;
        }
        if self.violations.len() >= MAX_VIOLATIONS_KEPT {
            return;
        }
        self.violations.push(Violation {
            signature,
            sub: sub.to_string(),
            id,
            detail,
        });
    }
    pub fn inconclusive(&mut self, why: String) {
        if !self.inconclusive.contains(&why) {
            self.inconclusive.push(why);
        }
    }
    pub fn note(&mut self, s: String) {
        if self.notes.len() < 50 {
            self.notes.push(s);
        }
    }
    /// coverage floor: missing it makes the run inconclusive, never a violation
    pub fn floor(&mut self, key: &str, min: u64) {
        // reduced (sanitizer / interpreter) runs are not held to the coverage floors
        if REDUCED.load(std::sync::atomic::Ordering::Relaxed) {
            return;
        }
        let got = self.cov_get(key);
        if got < min {
            self.inconclusive(format!("coverage floor not met: {} = {} < {}", key, got, min));
        }
    }
    pub fn merge(&mut self, o: Report) {
        self.evaluations += o.evaluations;
        self.cases += o.cases;
        self.distinct.extend(o.distinct);
        for (k, v) in o.cov {
            *self.cov.entry(k).or_insert(0) += v;
        }
        for s in o.samples {
            self.sample(s);
        }
        for v in o.violations {
            if self.violations.iter().filter(|x| x.signature == v.signature).count() < 3
                && self.violations.len() < MAX_VIOLATIONS_KEPT
            {
                self.violations.push(v);
            }
        }
        for i in o.inconclusive {
            self.inconclusive(i);
        }
        for n in o.notes {
            self.note(n);
        }
        for (k, v) in o.data {
            self.data.insert(k, v);
        }
    }
    pub fn to_json(&self) -> Value {
        let cov: serde_json::Map<String, Value> =
            self.cov.iter().map(|(k, v)| (k.clone(), json!(v))).collect();
        json!({
            "evaluations": self.evaluations,
            "cases": self.cases,
            "distinct_nontrivial": self.distinct.len(),
            "coverage_map": cov,
            "samples": self.samples,
            "violations": self.violations.iter().map(|v| json!({
                "signature": v.signature, "sub": v.sub, "id": v.id.to_string(), "detail": v.detail,
            })).collect::<Vec<_>>(),
            "inconclusive": self.inconclusive,
            "notes": self.notes,
            "data": self.data,
        })
    }
}

/// Run `work(thread_index, report)` on `threads` worker threads and merge.
/// A panic that escapes a worker (i.e. one the monitor did not attribute to the
/// code under test) is a harness error => inconclusive.
pub fn par<F>(threads: usize, work: F) -> Report
where
    F: Fn(usize, &mut Report) + Sync,
{
    let total = Mutex::new(Report::new());
    std::thread::scope(|s| {
        for t in 0..threads {
            let total = &total;
            let work = &work;
            std::thread::Builder::new()
                .stack_size(64 << 20)
                .spawn_scoped(s, move || {
                    let mut r = Report::new();
                    let res = std::panic::catch_unwind(std::panic::AssertUnwindSafe(|| {
                        work(t, &mut r);
                    }));
                    if let Err(e) = res {
                        r.inconclusive(format!(
                            "harness worker {} panicked outside an attributed operation: {}",
                            t,
                            panic_text(&e)
                        ));
                    }
                    total.lock().unwrap().merge(r);
                })
                .unwrap();
        }
    });
    total.into_inner().unwrap()
}

pub fn panic_text(e: &Box<dyn std::any::Any + Send>) -> String {
    if let Some(s) = e.downcast_ref::<&str>() {
        s.to_string()
    } else if let Some(s) = e.downcast_ref::<String>() {
        s.clone()
    } else {
        "<non-string panic payload>".to_string()
    }
}

// ---------------------------------------------------------------------------
// Panic attribution (C14 and every monitor that calls into the crates).

use std::cell::RefCell;
thread_local! {
    static LAST_PANIC: RefCell<Option<(String, String)>> = RefCell::new(None);
    static QUIET: RefCell<u32> = RefCell::new(0);
}

/// Install a process-wide hook that records (location, message) per thread and
/// stays silent for panics raised inside `guarded`.
pub fn install_panic_hook() {
    let prev = std::panic::take_hook();
    std::panic::set_hook(Box::new(move |info| {
        let loc = info
            .location()
            .map(|l| format!("{}:{}", l.file(), l.line()))
            .unwrap_or_else(|| "?".into());
        let msg = if let Some(s) = info.payload().downcast_ref::<&str>() {
            s.to_string()
        } else if let Some(s) = info.payload().downcast_ref::<String>() {
            s.clone()
        } else {
            "<payload>".into()
        };
        LAST_PANIC.with(|p| *p.borrow_mut() = Some((loc, msg)));
        let quiet = QUIET.with(|q| *q.borrow());
        if quiet == 0 {
            prev(info);
        }
    }));
}

#[derive(Debug, Clone)]
pub struct Caught {
    pub location: String,
    pub message: String,
}
impl Caught {
    /// location with the path made relative to the repository and without the
    /// line number (stable across unrelated edits); message with digits kept.
    pub fn signature(&self) -> String {
        let mut loc = self.location.clone();
        for pre in ["/repo/", "/tmp/"] {
            if let Some(i) = loc.find(pre) {
                loc = loc[i + pre.len()..].to_string();
            }
        }
        // strip scratch-copy prefixes like "<dir>/rand_jitter/src/lib.rs"
        if let Some(i) = loc.find("rand_") {
            loc = loc[i..].to_string();
        }
        let file = loc.rsplitn(2, ':').last().unwrap_or(&loc).to_string();
        format!("panic:{}:{}", file, self.message)
    }
}

/// Run `f`, turning a panic into `Err(Caught)`.
pub fn guarded<T>(f: impl FnOnce() -> T) -> Result<T, Caught> {
    QUIET.with(|q| *q.borrow_mut() += 1); // nestable
    LAST_PANIC.with(|p| *p.borrow_mut() = None);
    let r = std::panic::catch_unwind(std::panic::AssertUnwindSafe(f));
    QUIET.with(|q| *q.borrow_mut() -= 1);
    match r {
        Ok(v) => Ok(v),
        Err(e) => {
            let (location, message) = LAST_PANIC
                .with(|p| p.borrow_mut().take())
                .unwrap_or_else(|| ("?".into(), panic_text(&e)));
            Err(Caught { location, message })
        }
    }
}

// ---------------------------------------------------------------------------

#[derive(Clone, Debug)]
pub struct Ctx {
    pub tier_thorough: bool,
    pub seed: u64,
    pub threads: usize,
    /// multiplies the thorough-tier time budgets (seconds)
    pub budget_s: f64,
    /// multiplies every case count (sanitizer / interpreter runs use < 1)
    pub scale: f64,
    pub start: std::time::Instant,
}
impl Ctx {
    pub fn quick(&self) -> bool {
        !self.tier_thorough
    }
    /// pick by tier
    pub fn n(&self, quick: u64, thorough: u64) -> u64 {
        if self.tier_thorough {
            thorough
        } else {
            quick
        }
    }
    /// thinning of enumerated (non-random) case lists when scale < 1: keeps an
    /// evenly spread fraction `scale` of the indices
    pub fn keep(&self, k: u64) -> bool {
        if self.scale >= 1.0 {
            return true;
        }
        ((k as f64) * self.scale).floor() != (((k + 1) as f64) * self.scale).floor()
    }
    pub fn elapsed(&self) -> f64 {
        self.start.elapsed().as_secs_f64()
    }
    /// progress line on stderr in interpreter runs (where a stage may take minutes)
    pub fn progress(&self, label: &str) {
        if REDUCED.load(std::sync::atomic::Ordering::Relaxed) {
            eprintln!("[progress] {:>8.1}s {}", self.elapsed(), label);
        }
    }
}

/// The same JSON document with the members of every object in another order
/// (mode 0: sorted by key, 1: reverse sorted, 2: rotated by one): what a key-sorted
/// document model, a BTreeMap or a canonicalising re-encoder hands to a Deserialize
/// impl. Field order carries no meaning in a self-describing map.
pub fn reorder_json(text: &str, mode: u8) -> String {
    fn emit(v: &Value, mode: u8, out: &mut String) {
        match v {
            Value::Object(m) => {
                let mut keys: Vec<&String> = m.keys().collect();
                keys.sort();
                match mode % 3 {
                    1 => keys.reverse(),
                    2 => if keys.len() > 1 { keys.rotate_left(1) },
                    _ => {}
                }
                out.push('{');
                for (i, k) in keys.iter().enumerate() {
                    if i > 0 { out.push(','); }
                    out.push_str(&serde_json::to_string(k).unwrap());
                    out.push(':');
                    emit(&m[*k], mode, out);
                }
                out.push('}');
            }
            Value::Array(a) => {
                out.push('[');
                for (i, x) in a.iter().enumerate() {
                    if i > 0 { out.push(','); }
                    emit(x, mode, out);
                }
                out.push(']');
            }
            other => out.push_str(&serde_json::to_string(other).unwrap()),
        }
    }
    let v: Value = serde_json::from_str(text).expect("reorder_json: parse");
    let mut out = String::with_capacity(text.len());
    emit(&v, mode, &mut out);
    out
}
