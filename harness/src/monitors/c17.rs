//! C17: Debug output of state-hiding generators never depends on seed or state.
//! (1) differential: two instances with different secrets and the same public
//! read position must format identically; (2) leak scan: no numeric token of
//! the text equals a secret word of the instance.

use super::{drive, run_case, Only};
use crate::drive::*;
use crate::util::*;
use rand_core::block::{BlockRng, BlockRng64, BlockRngCore};
use rand_core::{RngCore, SeedableRng};
use serde_json::json;
use std::fmt::Debug;

fn fmt_both<T: Debug>(g: &T) -> (String, String) {
    (format!("{:?}", g), format!("{:#?}", g))
}

/// all decimal and hexadecimal numeric tokens of a text
fn numeric_tokens(s: &str) -> Vec<u64> {
    let mut out = Vec::new();
    let b = s.as_bytes();
    let mut i = 0;
    while i < b.len() {
        if b[i].is_ascii_digit() {
            let st = i;
            if b[i] == b'0' && i + 1 < b.len() && (b[i + 1] == b'x' || b[i + 1] == b'X') {
                i += 2;
                let h = i;
                while i < b.len() && b[i].is_ascii_hexdigit() { i += 1; }
                if let Ok(v) = u64::from_str_radix(&s[h..i], 16) { out.push(v); }
            } else {
                while i < b.len() && b[i].is_ascii_digit() { i += 1; }
                if let Ok(v) = s[st..i].parse::<u64>() { out.push(v); }
                // a bare hex run such as "deadbeef12" is also scanned below
            }
        } else {
            i += 1;
        }
    }
    // bare hexadecimal runs of 8 or 16 digits
    let mut i = 0;
    while i < b.len() {
        if b[i].is_ascii_hexdigit() {
            let st = i;
            while i < b.len() && b[i].is_ascii_hexdigit() { i += 1; }
            if i - st == 8 || i - st == 16 {
                if let Ok(v) = u64::from_str_radix(&s[st..i], 16) { out.push(v); }
            }
        } else {
            i += 1;
        }
    }
    out
}

const PUBLIC_MAX: u64 = 4096; // index / result_len range: never treated as secret

struct Subject {
    name: &'static str,
    texts: (String, String),
    secrets: Vec<u64>,
}

fn le_words(b: &[u8], w: usize) -> Vec<u64> {
    b.chunks(w).map(|c| { let mut v = 0u64; for (i, x) in c.iter().enumerate() { v |= (*x as u64) << (8 * i); } v }).collect()
}

/// Build the subject `kind` from (seed, pre-reads): its two texts and its secrets.
fn subject(kind: usize, seed: &[u8], reads: usize, half: bool, via_cf: bool, p: &mut Prng) -> Subject {
    let mut secrets: Vec<u64> = Vec::new();
    let mut add = |v: &[u64]| secrets.extend_from_slice(v);
    match kind {
        0 => {
            let s16: [u8; 16] = seed[..16].try_into().unwrap();
            let mut g = rand_xorshift::XorShiftRng::from_seed(s16);
            add(&le_words(&s16, 4));
            let mut m = crate::models::vigna::Xor128::from_seed_bytes(&s16);
            for _ in 0..reads { g.next_u32(); m.next(); }
            add(&[m.x as u64, m.y as u64, m.z as u64, m.w as u64]);
            let mut c = g.clone();
            let outs: Vec<u64> = (0..16).map(|_| c.next_u32() as u64).collect();
            add(&outs);
            if via_cf { let mut d = rand_xorshift::XorShiftRng::from_seed([9u8; 16]); d.clone_from(&g); g = d; }
            Subject { name: "XorShiftRng", texts: fmt_both(&g), secrets }
        }
        1 | 2 => {
            let s: [u8; 32] = seed[..32].try_into().unwrap();
            let mut g = rand_hc::Hc128Rng::from_seed(s);
            add(&le_words(&s, 4));
            let mut m = crate::models::hc128::Hc128::new(&s);
            // (sometimes the words are consumed by bulk requests from a block boundary)
            let mut done = 0usize;
            if reads % 7 == 3 {
                let mut buf = vec![0u8; 65_536 + 64 * (reads % 5)];
                g.fill_bytes(&mut buf);
                done = buf.len() / 4;
            }
            let reads = reads + done;
            for _ in done..reads { g.next_u32(); }
            // model advanced to the end of the current block = the core's table
            for _ in 0..((reads + 15) / 16) * 16 { m.next(); }
            add(&m.table_words().iter().map(|&w| w as u64).collect::<Vec<_>>());
            let mut c = g.clone();
            let outs: Vec<u64> = (0..32).map(|_| c.next_u32() as u64).collect();
            add(&outs);
            if kind == 1 {
                if via_cf { let mut d = rand_hc::Hc128Rng::from_seed([0u8; 32]); d.clone_from(&g); g = d; }
                Subject { name: "Hc128Rng", texts: fmt_both(&g), secrets }
            } else {
                let mut b = BlockRng::<rand_hc::Hc128Core>::from_seed(s);
                for _ in 0..reads { b.next_u32(); }
                if via_cf { let mut d = rand_hc::Hc128Core::from_seed([0u8; 32]); d.clone_from(&b.core); b.core = d; }
                Subject { name: "Hc128Core", texts: fmt_both(&b.core), secrets }
            }
        }
        3 | 4 => {
            let s: [u8; 32] = seed[..32].try_into().unwrap();
            let mut g = rand_isaac::IsaacRng::from_seed(s);
            add(&le_words(&s, 4));
            let mut m = crate::models::isaac::isaac32_from_seed(&s);
            for _ in 0..reads { g.next_u32(); m.next(); }
            add(&m.mm.iter().map(|&w| w as u64).collect::<Vec<_>>());
            add(&m.rsl.iter().map(|&w| w as u64).collect::<Vec<_>>());
            add(&[m.aa as u64, m.bb as u64]);
            let mut c = g.clone();
            let outs: Vec<u64> = (0..512).map(|_| c.next_u32() as u64).collect();
            add(&outs);
            if kind == 3 {
                if via_cf { let mut d = rand_isaac::IsaacRng::from_seed([0u8; 32]); d.clone_from(&g); g = d; }
                Subject { name: "IsaacRng", texts: fmt_both(&g), secrets }
            } else {
                let mut b = BlockRng::<rand_isaac::isaac::IsaacCore>::from_seed(s);
                for _ in 0..reads { b.next_u32(); }
                if via_cf { let mut d = rand_isaac::isaac::IsaacCore::from_seed([0u8; 32]); d.clone_from(&b.core); b.core = d; }
                Subject { name: "IsaacCore", texts: fmt_both(&b.core), secrets }
            }
        }
        5 | 6 => {
            let s: [u8; 32] = seed[..32].try_into().unwrap();
            let mut g = rand_isaac::Isaac64Rng::from_seed(s);
            add(&le_words(&s, 8));
            add(&le_words(&s, 4));
            let mut m = crate::models::isaac::isaac64_from_seed(&s);
            for _ in 0..reads { g.next_u64(); m.next(); }
            if half { g.next_u32(); m.next(); }
            add(&m.mm);
            add(&m.rsl);
            add(&[m.aa, m.bb]);
            let mut c = g.clone();
            let outs: Vec<u64> = (0..512).map(|_| c.next_u64()).collect();
            add(&outs);
            add(&outs.iter().map(|v| v >> 32).collect::<Vec<_>>());
            add(&outs.iter().map(|v| v & 0xffff_ffff).collect::<Vec<_>>());
            if kind == 5 {
                if via_cf { let mut d = rand_isaac::Isaac64Rng::from_seed([0u8; 32]); d.clone_from(&g); g = d; }
                Subject { name: "Isaac64Rng", texts: fmt_both(&g), secrets }
            } else {
                let mut b = BlockRng64::<rand_isaac::isaac64::Isaac64Core>::from_seed(s);
                for _ in 0..reads { b.next_u64(); }
                if via_cf { let mut d = rand_isaac::isaac64::Isaac64Core::from_seed([0u8; 32]); d.clone_from(&b.core); b.core = d; }
                Subject { name: "Isaac64Core", texts: fmt_both(&b.core), secrets }
            }
        }
        _ => {
            let readings = gen_script(p, 0, 200);
            add(&readings);
            let timer = ScriptedTimer::new(readings, p.u64());
            let mut g = rand_jitter::JitterRng::new_with_timer(timer.closure());
            g.set_rounds(*p.pick(&[1u8, 2, 3]));
            let mut outs = Vec::new();
            // `reads` draws in a fixed pattern of widths; the caller observes the text
            // at many different numbers of draws (the collector's private memory index
            // and the pending half change with every draw)
            for k in 0..reads { if k % 3 == 2 { outs.push(g.next_u64()); } else { outs.push(g.next_u32() as u64); } }
            if half { outs.push(g.next_u32() as u64); }
            add(&outs);
            add(&[g.verif_pool(), g.verif_pool() >> 32, g.verif_pool() & 0xffff_ffff]);
            let mut c = g.clone();
            let v = c.next_u64();
            add(&[v, v >> 32, v & 0xffff_ffff]);
            if via_cf { let mut d = rand_jitter::JitterRng::new_with_timer(timer.closure()); d.next_u32(); d.clone_from(&g); g = d; }
            Subject { name: "JitterRng", texts: fmt_both(&g), secrets }
        }
    }
}

pub const SUBJECTS: [&str; 8] = ["XorShiftRng", "Hc128Rng", "Hc128Core", "IsaacRng", "IsaacCore", "Isaac64Rng", "Isaac64Core", "JitterRng"];

/// two JitterRng on different timers, same operation pattern: the text is
/// compared after EVERY draw (hundreds of observation points per instance)
fn jitter_walk(sub: &str, id: u64, r: &mut Report) {
    let mut p = Prng::new(id);
    let rounds = *p.pick(&[1u8, 1, 3, 16]);
    let mk = |p: &mut Prng| {
        let cls = *p.pick(&[0usize, 8, 11, 1, 12]);
        let t = ScriptedTimer::new(gen_script(p, cls, 300), p.u64());
        let mut g = rand_jitter::JitterRng::new_with_timer(t.closure());
        g.set_rounds(rounds);
        (g, t)
    };
    let ((mut a, ta_), (mut b, tb_)) = (mk(&mut p), mk(&mut p));
    let first = fmt_both(&a);
    for k in 0..400 {
        // now and then the timer panics inside the call (same reading offset for both,
        // but different stuck patterns): the caller recovers; the text must not tell
        if k % 37 == 11 {
            let at = p.below(3 * (rounds as u64 + 2)) as usize;
            ta_.inject_fault_after(at);
            tb_.inject_fault_after(at);
        }
        let _ = guarded(|| match k % 5 { 0 | 1 | 3 => { a.next_u32(); } 2 => { a.next_u64(); } _ => { a.timer_stats(true); } });
        let _ = guarded(|| match k % 5 { 0 | 1 | 3 => { b.next_u32(); } 2 => { b.next_u64(); } _ => { b.timer_stats(true); } });
        ta_.clear_fault();
        tb_.clear_fault();
        let (ta, tb) = (fmt_both(&a), fmt_both(&b));
        r.eval();
        if ta != tb || ta != first {
            r.violation("JitterRng:debug_depends_on_state".into(), sub, id, json!({"after_draws": k + 1, "debug_a": ta.0, "debug_b": tb.0, "debug_fresh": first.0}));
            return;
        }
        let secrets = [a.verif_pool(), a.verif_pool() >> 32, a.verif_pool() & 0xffff_ffff];
        for t in numeric_tokens(&ta.0) {
            if t > PUBLIC_MAX && secrets.contains(&t) {
                r.violation("JitterRng:debug_leaks_secret_word".into(), sub, id, json!({"after_draws": k + 1, "token": hx64(t), "debug": ta.0}));
                return;
            }
        }
    }
    r.covn("jitter_walk_observations", 800);
    r.distinct(hkey(&[&"jitter_walk", &id]));
}

/// rewrite every numeric array (and, in flat objects, every numeric member) of a
/// serialized generator into a degenerate pattern
fn degenerate_value(v: &mut serde_json::Value, mode: u64, word: u64) {
    use serde_json::Value;
    match v {
        Value::Array(a) if a.len() >= 4 && a.iter().all(|x| x.is_u64()) => {
            let n = a.len();
            for (i, x) in a.iter_mut().enumerate() {
                let nv = match mode {
                    0 => word,                                   // all words equal
                    1 => 0,                                      // all zero
                    2 => i as u64,                               // 0, 1, 2, ...
                    3 => if i % 2 == 0 { word } else { !word & 0xffff_ffff }, // alternating
                    4 => if i == n / 2 { word ^ 1 } else { word },           // all equal but one
                    _ => 0xffff_ffff,                            // all ones (32 bit)
                };
                *x = Value::from(nv);
            }
        }
        Value::Array(a) => a.iter_mut().for_each(|x| degenerate_value(x, mode, word)),
        Value::Object(m) => {
            let flat = m.values().all(|x| x.is_u64());
            for (k, x) in m.iter_mut() {
                if flat && m_is_state_key(k) {
                    *x = Value::from(if mode == 1 { 0 } else { word & 0xffff_ffff });
                } else {
                    degenerate_value(x, mode, word);
                }
            }
        }
        _ => {}
    }
}
fn m_is_state_key(k: &str) -> bool {
    matches!(k, "x" | "y" | "z" | "w")
}

/// Degenerate states installed through serde (the only route to them besides a
/// pre-image under the seeding function): all state words equal / zero / counting /
/// alternating. The Debug text must be the text of any other instance of the type.
fn degenerate_case(sub: &str, id: u64, r: &mut Report) {
    let mut p = Prng::new(id);
    let mode = id % 6;
    let word = match p.below(3) { 0 => 0x5eed_1234, 1 => 1, _ => p.u64() & 0xffff_ffff };
    let seed = p.bytes(32);
    let pattern_name = ["all_equal", "all_zero", "counting", "alternating", "all_equal_but_one", "all_ones"][mode as usize];
    macro_rules! go {
        ($name:expr, $ty:ty, $mk:expr) => {{
            let ordinary: $ty = $mk;
            let mut doc = serde_json::to_value(&ordinary).expect("serialize");
            degenerate_value(&mut doc, mode, word);
            // (XorShiftRng refuses nothing; an all-zero xorshift state is still a value of the type)
            match serde_json::from_value::<$ty>(doc.clone()) {
                Ok(deg) => {
                    let (a, b) = (fmt_both(&ordinary), fmt_both(&deg));
                    r.eval();
                    if a != b {
                        r.violation(format!("{}:debug_depends_on_state:degenerate_state", $name), sub, id, json!({
                            "type": $name, "pattern": pattern_name, "word": hx64(word),
                            "ordinary": a.0, "degenerate": b.0, "ordinary_alt": a.1, "degenerate_alt": b.1}));
                        return;
                    }
                    // the same through a clone and after one draw from the clone
                    // (the wrappers print their public read position: compare at the same one)
                    let mut c = deg.clone();
                    let _ = c.next_u32();
                    let mut oc = ordinary.clone();
                    let _ = oc.next_u32();
                    r.eval();
                    if fmt_both(&c) != fmt_both(&oc) {
                        r.violation(format!("{}:debug_depends_on_state:degenerate_state", $name), sub, id, json!({"type": $name, "after": "clone + one draw", "text": fmt_both(&c).0}));
                        return;
                    }
                    r.cov(&format!("degenerate:{}", $name));
                }
                Err(_) => r.cov(&format!("degenerate_rejected:{}", $name)),
            }
        }};
    }
    let s32: [u8; 32] = seed[..32].try_into().unwrap();
    let s16: [u8; 16] = seed[..16].try_into().unwrap();
    match (id / 6) % 3 {
        0 => go!("IsaacRng", rand_isaac::IsaacRng, { let mut g = rand_isaac::IsaacRng::from_seed(s32); for _ in 0..p.below(300) { g.next_u32(); } g }),
        1 => go!("Isaac64Rng", rand_isaac::Isaac64Rng, { let mut g = rand_isaac::Isaac64Rng::from_seed(s32); for _ in 0..p.below(300) { g.next_u32(); } g }),
        _ => go!("XorShiftRng", rand_xorshift::XorShiftRng, rand_xorshift::XorShiftRng::from_seed(s16)),
    }
    r.distinct(hkey(&[&"degenerate", &id]));
}

fn case(sub: &str, id: u64, r: &mut Report) {
    if sub == "degenerate" {
        return degenerate_case(sub, id, r);
    }
    if sub == "jitter_walk" {
        return jitter_walk(sub, id, r);
    }
    let mut p = Prng::new(id);
    let kind = p.below(8) as usize;
    // same public read position for both instances
    // read positions: mostly early, sometimes far into the stream (more than one
    // HC-128 table cycle / 64 blocks; more than 65536 words)
    let reads = match (kind, p.below(8)) {
        (1 | 2, 0) => 1000 + p.below(200),
        (1 | 2, 1) => 65_500 + p.below(100),
        (1 | 2, _) => p.below(40),
        (3..=6, 0) => 65_500 + p.below(600),
        (3..=6, _) => p.below(600),
        (0, 0) => 70_000 + p.below(10),
        _ => p.below(20),
    } as usize;
    let half = p.chance(1, 2);
    // special secrets against random ones: the all-zero seed (remapped to a
    // preset), the preset itself, all-ones, small integers
    let special = sub == "special";
    let seed_a = if special {
        match id % 6 {
            0 => vec![0u8; 32],
            1 => std::iter::repeat(0x0BAD_5EEDu32.to_le_bytes()).take(8).flatten().collect(),
            2 => vec![0xff; 32],
            3 => { let mut s = vec![0u8; 32]; s[0] = 1; s }
            4 => { let mut s = vec![0u8; 32]; s[31] = 0x80; s }
            _ => (0..32).map(|i| if i % 4 == 0 { (i / 4 + 1) as u8 } else { 0 }).collect(),
        }
    } else {
        p.bytes(32)
    };
    let reads = if special { (id / 6 % 4) as usize } else { reads };
    let half = if special { false } else { half };
    let seed_b = p.bytes(32);
    let via_cf = !special && p.chance(1, 4);
    // JitterRng: observation after 0..600 draws (an index that returns to a given
    // value about once in 2048 memory accesses)
    let reads = if kind == 7 && !special { p.below(600) as usize } else { reads };
    let a = subject(kind, &seed_a, reads, half, via_cf, &mut p);
    let b = subject(kind, &seed_b, reads, half, via_cf, &mut p);
    if via_cf { r.cov("via_clone_from"); }
    let desc = json!({"type": a.name, "seed_a": hex(&seed_a), "seed_b": hex(&seed_b), "native_reads_before": reads, "half_word_read": half});
    r.eval();
    if a.texts != b.texts {
        let mut d = desc.clone();
        d["debug_a"] = json!(a.texts.0.chars().take(400).collect::<String>());
        d["debug_b"] = json!(b.texts.0.chars().take(400).collect::<String>());
        r.violation(format!("{}:debug_depends_on_state", a.name), sub, id, d);
        return;
    }
    // types without any public read position: also independent of the history
    if matches!(kind, 0 | 2 | 4 | 6 | 7) {
        let other_reads = reads + 1 + p.below(40) as usize;
        let c = subject(kind, &seed_a, other_reads, !half, via_cf, &mut p);
        r.eval();
        if c.texts != a.texts {
            let mut d = desc.clone();
            d["debug_a"] = json!(a.texts.0.chars().take(400).collect::<String>());
            d["debug_c"] = json!(c.texts.0.chars().take(400).collect::<String>());
            d["reads_c"] = json!(other_reads);
            r.violation(format!("{}:debug_depends_on_history", a.name), sub, id, d);
            return;
        }
    }
    for s in [&a, &b] {
        for text in [&s.texts.0, &s.texts.1] {
            let toks = numeric_tokens(text);
            r.evals(toks.len().max(1) as u64);
            for t in toks {
                if t > PUBLIC_MAX && s.secrets.contains(&t) {
                    let mut d = desc.clone();
                    d["token"] = json!(hx64(t));
                    d["debug"] = json!(text.chars().take(400).collect::<String>());
                    r.violation(format!("{}:debug_leaks_secret_word", s.name), sub, id, d);
                    return;
                }
            }
        }
    }
    r.cov(&format!("type:{}", a.name));
    if special {
        r.cov(&format!("special:{}", a.name));
    }
    r.distinct(hkey(&[&a.name, &seed_a, &seed_b, &reads]));
    r.sample(json!({"type": a.name, "native_reads_before": reads, "debug": a.texts.0.chars().take(160).collect::<String>(), "secret_words_checked": a.secrets.len()}));
}

pub fn run(ctx: &Ctx, only: Option<&Only>) -> Report {
    if let Some(o) = only {
        let mut r = Report::new();
        let sub = o.sub.to_string();
        run_case(o.sub, o.id, &mut r, &|id, r: &mut Report| case(&sub, id, r));
        return r;
    }
    let secs = if ctx.tier_thorough { ctx.budget_s } else { 0.0 };
    let mut total = drive(ctx, "pairs", 16_000, secs, |id, r| case("pairs", id, r));
    total.merge(drive(ctx, "special", 2_000, 0.0, |id, r| case("special", id, r)));
    total.merge(drive(ctx, "jitter_walk", 160, 0.0, |id, r| case("jitter_walk", id, r)));
    total.merge(drive(ctx, "degenerate", 720, 0.0, |id, r| case("degenerate", id, r)));
    for n in ["IsaacRng", "Isaac64Rng", "XorShiftRng"] {
        total.floor(&format!("degenerate:{}", n), 100);
    }
    total.floor("jitter_walk_observations", 100_000);
    for n in SUBJECTS {
        total.floor(&format!("type:{}", n), 100);
        total.floor(&format!("special:{}", n), 20);
    }
    total.floor("via_clone_from", 500);
    {
    }
    total
}
