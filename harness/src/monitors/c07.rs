//! C07: the linear engines have one cycle of length 2^n − 1.
//! Runtime part: observe the transition matrix of every linear type from real
//! single steps, monitor linearity on random executions, and run bounded
//! direct monitors (no state repeats, zero never reached, successors of
//! distinct states are distinct). The recorded matrices are decided offline by
//! tools/gf2_period.py (primitivity of the minimal polynomial).

use super::linear::*;
use super::{drive, run_case, Only};
use crate::drive::gen_seed;
use crate::specs::*;
use crate::util::*;
use crate::with_spec;
use serde_json::json;

pub const LINEAR_TYPES: [usize; 15] = [0, 1, 2, 3, 4, 5, 6, 7, 8, 9, 10, 11, 12, 13, 15];

fn case_typed<S: Spec>(sub: &str, id: u64, steps: u64, r: &mut Report) {
    let mut p = Prng::new(id);
    let wb = (S::FAMILY.native_bits() / 8) as usize;
    match sub {
        "matrix" => {
            let (t, z) = observe_matrix::<S>(r);
            r.eval();
            if !z.is_zero() {
                r.violation(format!("{}:zero_state_not_fixed", S::NAME), sub, id,
                    json!({"type": S::NAME, "successor_of_zero": hex(&z.to_bytes())}));
            }
            r.data.insert(format!("matrix:{}", S::NAME), json!({"n": t.n, "cols": t.hex_cols()}));
            r.cov(&format!("matrix_observed:{}", S::NAME));
            r.distinct(hkey(&[&"matrix", &S::NAME]));
        }
        "linearity" => {
            let (t, _) = observe_matrix::<S>(&mut Report::new());
            match linearity_monitor::<S>(&t, 256, &mut p, r) {
                Ok(n) => r.covn(&format!("linearity_obs:{}", S::NAME), n),
                Err(w) => {
                    // the algebraic oracle does not apply to a non-linear step
                    r.data.insert(format!("nonlinear:{}", S::NAME), w.clone());
                    r.inconclusive(format!("{}: real step is not GF(2)-linear on an observed execution; algebraic period oracle not applicable", S::NAME));
                }
            }
        }
        // Brent cycle detection on the real step
        "brent" => {
            let (class, s) = gen_seed(&mut p, S::SEED_LEN, wb, false);
            let zero = inject::<S>(&vec![0u8; S::SEED_LEN]);
            let mut hare = inject::<S>(&s);
            let mut tortoise = hare.clone();
            let mut power = 1u64;
            let mut lam = 0u64;
            let mut k = 0u64;
            while k < steps {
                native_step::<S>(&mut hare);
                k += 1;
                lam += 1;
                if S::eq(&hare, &tortoise) == Some(true) {
                    r.violation(format!("{}:state_repeats", S::NAME), sub, id,
                        json!({"type": S::NAME, "start_state": hex(&s), "cycle_length": lam, "after_steps": k}));
                    return;
                }
                if S::eq(&hare, &zero) == Some(true) {
                    r.violation(format!("{}:zero_state_reached", S::NAME), sub, id,
                        json!({"type": S::NAME, "start_state": hex(&s), "after_steps": k}));
                    return;
                }
                if lam == power {
                    tortoise = hare.clone();
                    power *= 2;
                    lam = 0;
                }
            }
            r.evals(2 * steps);
            r.covn(&format!("brent_steps:{}", S::NAME), steps);
            r.cov(&format!("seed_class:{}", class));
            r.distinct(hkey(&[&"brent", &S::NAME, &s]));
            r.sample(json!({"monitor": "brent", "type": S::NAME, "start_state": hex(&s), "steps_without_repeat": steps}));
        }
        // distinct states must have distinct successors
        "injective" => {
            let mut seen: std::collections::HashMap<Vec<u8>, Vec<u8>> = std::collections::HashMap::new();
            let (_, base) = gen_seed(&mut p, S::SEED_LEN, wb, false);
            for k in 0..steps {
                // random states and low-Hamming-distance neighbours of one base
                let s = if k % 2 == 0 {
                    gen_seed(&mut p, S::SEED_LEN, wb, true).1
                } else {
                    let mut s = base.clone();
                    for _ in 0..p.range(1, 3) {
                        let bit = p.below(S::SEED_LEN as u64 * 8) as usize;
                        s[bit / 8] ^= 1 << (bit % 8);
                    }
                    s
                };
                let succ = step_image::<S>(&s);
                r.eval();
                if let Some(prev) = seen.get(&succ) {
                    if *prev != s {
                        r.violation(format!("{}:successor_collision", S::NAME), sub, id,
                            json!({"type": S::NAME, "state_a": hex(prev), "state_b": hex(&s), "common_successor": hex(&succ)}));
                        return;
                    }
                }
                seen.insert(succ, s);
            }
            r.covn(&format!("injective_states:{}", S::NAME), seen.len() as u64);
            r.distinct(hkey(&[&"injective", &S::NAME, &base]));
        }
        // generators seeded through the API never sit in / reach the all-zero
        // state and have no fixed point, whatever the constructor argument
        "api_seeded" => {
            use rand_core::SeedableRng;
            let zero = inject::<S>(&vec![0u8; S::SEED_LEN]);
            for k in 0..25u64 {
                let (how, mut g): (String, S::R) = match k % 5 {
                    4 => {
                        let zeros = *p.pick(crate::drive::zero_block_counts()) * S::SEED_LEN;
                        let zeros = if S::NAME == "XorShiftRng" { zeros } else { zeros.min(2 * S::SEED_LEN) };
                        let mut d = vec![0u8; zeros];
                        d.extend(p.bytes(S::SEED_LEN));
                        let mut src = crate::drive::FallibleSource(crate::drive::SourceRng::new(d));
                        match S::R::try_from_rng(&mut src) {
                            Ok(g) => (format!("try_from_rng({} leading zero bytes)", zeros), g),
                            Err(_) => continue,
                        }
                    }
                    0 | 1 => { let x = super::c08::special_u64(&mut p, k + (id % 12)); (format!("seed_from_u64({})", hx64(x)), S::R::seed_from_u64(x)) }
                    2 => { let s = if p.chance(1, 4) { vec![0u8; S::SEED_LEN] } else { gen_seed(&mut p, S::SEED_LEN, wb, true).1 }; (format!("from_seed({})", hex(&s)), S::from_seed(&s)) }
                    _ => {
                        let zeros = if S::NAME == "XorShiftRng" { *p.pick(crate::drive::zero_block_counts()) * 16 } else { p.below(3) as usize * S::SEED_LEN };
                        let mut d = vec![0u8; zeros];
                        d.extend(p.bytes(S::SEED_LEN));
                        let mut src = crate::drive::SourceRng::new(d);
                        (format!("from_rng({} leading zero bytes)", zeros), S::R::from_rng(&mut src))
                    }
                };
                let mut prev = g.clone();
                for step in 0..64 {
                    r.eval();
                    if S::eq(&g, &zero) == Some(true) {
                        r.violation(format!("{}:api_seeded_generator_in_zero_state", S::NAME), sub, id,
                            json!({"type": S::NAME, "constructor": how, "after_steps": step}));
                        return;
                    }
                    native_step::<S>(&mut g);
                    if S::eq(&g, &prev) == Some(true) {
                        r.violation(format!("{}:fixed_point", S::NAME), sub, id, json!({"type": S::NAME, "constructor": how, "after_steps": step}));
                        return;
                    }
                    prev = g.clone();
                }
            }
            r.cov(&format!("api_seeded:{}", S::NAME));
            r.distinct(hkey(&[&"api_seeded", &S::NAME, &id]));
        }
        // every state-advancing operation (next_u32, next_u64, fill_bytes of any
        // length) moves the state exactly along the cycle: after an operation that
        // consumes k native words the state equals the k-fold native successor
        // jump()/long_jump() move along the SAME cycle: they commute with a single step,
        // never reach the zero state and never merge two states — also from states whose
        // IMAGE under the jump is structured (pre-images under the observed jump matrix)
        // and from word-coincidence states (see c06::coincidence_state)
        "jump_on_cycle" => {
            if !S::HAS_JUMP { return; }
            use crate::models::gf2::BitVec;
            let ti = TYPE_NAMES.iter().position(|n| *n == S::NAME).unwrap();
            let reduced = crate::util::REDUCED.load(std::sync::atomic::Ordering::Relaxed);
            let mut images: std::collections::HashMap<(bool, Vec<u8>), Vec<u8>> = std::collections::HashMap::new();
            let zero_img = vec![0u8; S::SEED_LEN];
            for k in 0..(if reduced { 3 } else { 24 }) {
                let (mut class, mut s) = gen_seed(&mut p, S::SEED_LEN, wb, false);
                if !reduced {
                    let o = super::c06::oracle_for(ti, r);
                    match k % 4 {
                        0 | 1 => {
                            // also the pre-image of the documented zero-seed replacement
                            if k % 8 == 0 { s = crate::drive::preset_block(S::NAME, S::SEED_LEN); }
                            if let Some(inv) = if k % 4 == 0 { &o.j_inv } else { &o.l_inv } {
                                let v = inv.apply(&BitVec::from_bytes(&s)).to_bytes();
                                if v != zero_img { s = v; class = "preimage_of_structured_under_jump"; }
                            }
                        }
                        2 => {
                            if let Some((v, name)) = super::c06::coincidence_state(&o, S::SEED_LEN, wb, &mut p) { s = v; class = name; }
                        }
                        _ => {}
                    }
                }
                for long in [false, true] {
                    let jm = |g: &mut S::R| if long { S::long_jump(g) } else { S::jump(g) };
                    let mut a = inject::<S>(&s);
                    jm(&mut a);
                    let ja = image::<S>(&a);
                    r.eval();
                    if ja == zero_img {
                        r.violation(format!("{}:zero_state_reached_by_jump", S::NAME), sub, id, json!({"type": S::NAME, "state": hex(&s), "long_jump": long, "state_class": class}));
                        return;
                    }
                    // step then jump == jump then step
                    native_step::<S>(&mut a);
                    let mut b = inject::<S>(&s);
                    native_step::<S>(&mut b);
                    jm(&mut b);
                    r.eval();
                    if image::<S>(&a) != image::<S>(&b) {
                        r.violation(format!("{}:jump_leaves_the_cycle(step_commutation)", S::NAME), sub, id, json!({
                            "type": S::NAME, "state": hex(&s), "long_jump": long, "state_class": class,
                            "step(jump(s))": hex(&image::<S>(&a)), "jump(step(s))": hex(&image::<S>(&b))}));
                        return;
                    }
                    r.eval();
                    if let Some(prev) = images.insert((long, ja.clone()), s.clone()) {
                        if prev != s {
                            r.violation(format!("{}:jump_merges_distinct_states", S::NAME), sub, id, json!({
                                "type": S::NAME, "long_jump": long, "state_a": hex(&prev), "state_b": hex(&s), "common_image": hex(&ja)}));
                            return;
                        }
                    }
                }
                r.cov(&format!("jump_on_cycle_class:{}", if class.starts_with("coincidence") { "coincidence" } else if class.starts_with("preimage") { "preimage" } else { "other" }));
            }
            r.cov(&format!("jump_on_cycle:{}", S::NAME));
            r.distinct(hkey(&[&"jump_on_cycle", &S::NAME, &id]));
        }
        "mixed_ops" => {
            use super::c05::{apply, PFam, Proj};
            let (class, s) = gen_seed(&mut p, S::SEED_LEN, wb, false);
            let mut g = inject::<S>(&s);
            let mut twin = inject::<S>(&s);
            let mut proj = Proj::new(PFam::from(S::FAMILY));
            let zero_img = vec![0u8; S::SEED_LEN];
            let mut ops = Vec::new();
            for _ in 0..p.range(4, 24) {
                let op = crate::drive::gen_out_op(&mut p, 0, 8);
                let before = proj.pos;
                let _ = proj.expect(&op, &mut |_| 0); // only the word count matters here
                for _ in before..proj.pos {
                    native_step::<S>(&mut twin);
                }
                let _ = apply(&mut g, &op);
                ops.push(op.clone());
                r.eval();
                let (gi, ti) = (image::<S>(&g), image::<S>(&twin));
                if gi != ti || gi == zero_img {
                    r.violation(format!("{}:operation_leaves_the_cycle", S::NAME), sub, id, json!({
                        "type": S::NAME, "start_state": hex(&s), "ops": crate::drive::show_ops(&ops),
                        "state_after": hex(&gi), "expected_state(native successor x words consumed)": hex(&ti), "words_consumed": proj.pos}));
                    return;
                }
            }
            r.cov(&format!("mixed_ops:{}", S::NAME));
            r.cov(&format!("seed_class:{}", class));
            r.distinct(hkey(&[&"mixed_ops", &S::NAME, &s, &crate::drive::show_ops(&ops)]));
        }
        _ => r.inconclusive(format!("unknown sub-monitor {} for C07", sub)),
    }
}

/// jump()/long_jump() are steps along the same cycle: from non-zero, pairwise
/// distinct states they must give non-zero, pairwise distinct states — also when
/// they are the first jumps of a fresh process made on 16 threads at once
fn jump_race(sub: &str, id: u64, r: &mut Report) {
    let ti = super::c06::JUMP_TYPES[((id / 2) % 12) as usize];
    let long = id % 2 == 1;
    let exe = match std::env::current_exe() { Ok(e) => e, Err(_) => { r.inconclusive("current_exe unavailable".into()); return; } };
    let out = std::process::Command::new(&exe).args(["--c06-race-child", &ti.to_string(), if long { "1" } else { "0" }, &id.to_string()]).output();
    let out = match out { Ok(o) if o.status.success() => o, _ => { r.inconclusive("jump_race: child process failed".into()); return; } };
    let mut seen = std::collections::HashSet::new();
    for line in String::from_utf8_lossy(&out.stdout).lines() {
        let Some(after) = line.split(' ').nth(1) else { continue };
        r.eval();
        if after.bytes().all(|b| b == b'0') {
            r.violation(format!("{}:zero_state_reached_by_jump", TYPE_NAMES[ti]), sub, id, json!({"type": TYPE_NAMES[ti], "long_jump": long, "line": line,
                "note": "first jumps of a fresh process on 16 threads"}));
            return;
        }
        if !seen.insert(after.to_string()) {
            r.violation(format!("{}:jump_merges_distinct_states", TYPE_NAMES[ti]), sub, id, json!({"type": TYPE_NAMES[ti], "long_jump": long, "line": line}));
            return;
        }
    }
    if seen.len() < 16 { r.inconclusive("jump_race: child printed too few results".into()); return; }
    r.cov("jump_race");
    r.distinct(hkey(&[&"jump_race", &id]));
}

fn case(sub: &str, id: u64, steps: u64, r: &mut Report) {
    if sub == "jump_race" {
        return jump_race(sub, id, r);
    }
    let ti = if sub == "matrix" { id as usize } else { LINEAR_TYPES[Prng::new(id ^ 0x99).below(15) as usize] };
    with_spec!(ti, S => { if S::LINEAR { case_typed::<S>(sub, id, steps, r) } });
}

pub fn run(ctx: &Ctx, only: Option<&Only>) -> Report {
    if let Some(o) = only {
        let mut r = Report::new();
        let sub = o.sub.to_string();
        let steps = if sub == "brent" { 1 << 22 } else { 20_000 };
        run_case(o.sub, o.id, &mut r, &|id, r: &mut Report| case(&sub, id, steps, r));
        return r;
    }
    let mut total = par(ctx.threads, |t, r| {
        for (k, &ti) in LINEAR_TYPES.iter().enumerate() {
            if k % ctx.threads == t {
                run_case("matrix", ti as u64, r, &|id, r: &mut Report| case("matrix", id, 0, r));
            }
        }
    });
    let secs = if ctx.tier_thorough { ctx.budget_s } else { 0.0 };
    let mut brent_steps = ctx.n(1 << 21, 1 << 27);
    if ctx.scale < 1.0 {
        brent_steps = ((brent_steps as f64 * ctx.scale) as u64).max(2_000);
    }
    total.merge(drive(ctx, "linearity", ctx.n(600, 600), secs * 0.2, |id, r| case("linearity", id, 0, r)));
    total.merge(drive(ctx, "brent", ctx.n(120, 120), secs * 0.4, |id, r| case("brent", id, brent_steps, r)));
    let inj = if ctx.scale < 1.0 { 500 } else { ctx.n(20_000, 200_000) };
    total.merge(drive(ctx, "injective", ctx.n(60, 60), secs * 0.2, |id, r| case("injective", id, inj, r)));
    total.merge(drive(ctx, "api_seeded", ctx.n(1_500, 1_500), secs * 0.1, |id, r| case("api_seeded", id, 0, r)));
    if ctx.scale >= 1.0 {
        total.merge(par(ctx.threads.min(4), |t, r| {
            for k in 0..48u64 {
                if k as usize % ctx.threads.min(4) == t {
                    run_case("jump_race", 1000 + k, r, &|id, r: &mut Report| case("jump_race", id, 0, r));
                }
            }
        }));
        total.floor("jump_race", 40);
    }
    total.merge(drive(ctx, "mixed_ops", ctx.n(6_000, 6_000), secs * 0.1, |id, r| case("mixed_ops", id, 0, r)));
    total.merge(drive(ctx, "jump_on_cycle", ctx.n(1_200, 1_200), secs * 0.05, |id, r| case("jump_on_cycle", id, 0, r)));
    total.floor("jump_on_cycle_class:preimage", 1_000);
    total.floor("jump_on_cycle_class:coincidence", 500);
    for &ti in &LINEAR_TYPES {
        total.floor(&format!("api_seeded:{}", TYPE_NAMES[ti]), 10);
        total.floor(&format!("mixed_ops:{}", TYPE_NAMES[ti]), 50);
        total.floor(&format!("matrix_observed:{}", TYPE_NAMES[ti]), 1);
        total.floor(&format!("linearity_obs:{}", TYPE_NAMES[ti]), 1000);
        total.floor(&format!("brent_steps:{}", TYPE_NAMES[ti]), 1 << 21);
    }
    total
}
