//! C11: a serde snapshot taken at any point restores a generator with the
//! identical future. Oracle: a clone taken before serialising (twin), the
//! original and the restored instance all run one continuation.

use super::c10::{apply_ext, gen_history};
use super::{drive, run_case, Only};
use crate::drive::*;
use crate::specs::*;
use crate::util::*;
use crate::with_spec;
use serde_json::json;

pub const SERDE_TYPES: [usize; 18] = [0, 1, 2, 3, 4, 5, 6, 7, 8, 9, 10, 11, 12, 13, 14, 15, 17, 18];

fn case_typed<S: Spec>(sub: &str, id: u64, forced: Option<(usize, bool)>, first_op: Option<Op>, r: &mut Report) {
    let mut p = Prng::new(id);
    let wb = (S::FAMILY.native_bits() / 8) as usize;
    let bw = S::FAMILY.block_words();
    let (_, seed) = gen_seed(&mut p, S::SEED_LEN, wb, true);
    let mut orig = S::from_seed(&seed);
    // history up to the snapshot point
    let mut hist: Vec<Op> = Vec::new();
    let (idx, half) = match forced {
        Some(f) => f,
        None => (p.below(bw as u64 + 1) as usize, p.chance(1, 2)),
    };
    if S::FAMILY.is_block() {
        // put the read position at buffer index `idx` (index == block length
        // means "fresh / exhausted"): one refill plus idx native words
        let native = if matches!(S::FAMILY, Family::Block64(_)) { Op::U64 } else { Op::U32 };
        if idx < bw {
            if p.chance(1, 2) {
                hist.push(Op::Fill(bw * wb)); // a whole block first
            }
            for _ in 0..idx {
                hist.push(native.clone());
            }
            if idx == 0 {
                // index 0 is only reachable right after a refill is consumed to 0? no:
                // index 0 never persists (a refill is followed by a read) — use a
                // whole-block read instead, which leaves index == block length
            }
        }
        if matches!(S::FAMILY, Family::Block64(_)) && half {
            hist.push(Op::U32); // leaves the high half pending
        }
    } else {
        let n = p.range(0, 20) as usize;
        hist = gen_history::<S>(&mut p, n);
    }
    if forced.is_none() && S::FAMILY.is_block() && p.chance(1, 3) {
        let n = p.range(1, 10) as usize;
        hist.extend(gen_history::<S>(&mut p, n));
    }
    for op in &hist {
        apply_ext::<S>(&mut orig, op);
    }
    let mut twin = orig.clone();
    let desc = json!({"type": S::NAME, "seed": hex(&seed), "history": show_ops(&hist)});
    // snapshot through both formats
    let bytes = S::bincode(&orig).unwrap();
    let text = S::json(&orig).unwrap();
    // (third reader: the same JSON document with object members in another order)
    let reordered = reorder_json(&text, (id % 3) as u8);
    r.cov("json_members_reordered");
    let restored = [("bincode", S::from_bincode(&bytes).unwrap()), ("json", S::from_json(&text).unwrap()), ("json_members_reordered", S::from_json(&reordered).unwrap())];
    let cont = {
        let n = p.range(4, 24) as usize;
        let mut c = gen_history::<S>(&mut p, n);
        if let Some(f) = &first_op {
            c.insert(0, f.clone());
        }
        if bw > 1 {
            c.push(Op::Fill(2 * bw * wb + p.below(9) as usize));
            c.push(Op::U32);
            c.push(Op::U32);
            c.push(Op::U64);
        }
        c
    };
    let mut rest: Vec<(&str, S::R)> = Vec::new();
    for (fmt, res) in restored {
        match res {
            Ok(g) => {
                r.eval();
                if let Some(false) = S::eq(&g, &orig) {
                    let mut d = desc.clone();
                    d["format"] = json!(fmt);
                    r.violation(format!("{}:restored_not_equal:{}", S::NAME, fmt), sub, id, d);
                    return;
                }
                rest.push((fmt, g));
            }
            Err(e) => {
                let mut d = desc.clone();
                d["format"] = json!(fmt);
                d["error"] = json!(e);
                r.violation(format!("{}:deserialize_failed:{}", S::NAME, fmt), sub, id, d);
                return;
            }
        }
    }
    // the snapshot is exactly its own bytes: a strict reader accepts it, and two
    // snapshots written into one stream come back as the same two generators
    r.eval();
    match S::from_bincode_strict(&bytes).unwrap() {
        Ok(g) => rest.push(("bincode_strict", g)),
        Err(e) => {
            let mut d = desc.clone();
            d["error"] = json!(e);
            r.violation(format!("{}:deserialize_failed:bincode_strict", S::NAME), sub, id, d);
            return;
        }
    }
    {
        let other = S::from_seed(&vec![0x33u8; S::SEED_LEN]);
        match S::pair_roundtrip(&orig, &other).unwrap() {
            Ok((g1, mut g2)) => {
                rest.push(("bincode_pair_first", g1));
                let mut o2 = other.clone();
                for k in 0..6 {
                    r.eval();
                    if apply_ext::<S>(&mut g2, &Op::U32) != apply_ext::<S>(&mut o2, &Op::U32) {
                        let mut d = desc.clone();
                        d["op_index"] = json!(k);
                        r.violation(format!("{}:second_snapshot_in_stream_diverges", S::NAME), sub, id, d);
                        return;
                    }
                }
            }
            Err(e) => {
                let mut d = desc.clone();
                d["error"] = json!(e);
                r.violation(format!("{}:deserialize_failed:bincode_pair", S::NAME), sub, id, d);
                return;
            }
        }
    }
    // re-serialising the restored generator gives the same image
    r.eval();
    if S::bincode(&rest[0].1).unwrap() != bytes {
        r.violation(format!("{}:image_not_stable", S::NAME), sub, id, desc.clone());
        return;
    }
    for (i, op) in cont.iter().enumerate() {
        let want = apply_ext::<S>(&mut twin, op);
        let got_orig = apply_ext::<S>(&mut orig, op);
        r.eval();
        if got_orig != want {
            let mut d = desc.clone();
            d["continuation"] = json!(show_ops(&cont));
            d["op_index"] = json!(i);
            d["expected"] = json!(want.show());
            d["observed"] = json!(got_orig.show());
            r.violation(format!("{}:serialising_disturbed_original", S::NAME), sub, id, d);
            return;
        }
        for (fmt, g) in rest.iter_mut() {
            let got = apply_ext::<S>(g, op);
            r.eval();
            if got != want {
                let mut d = desc.clone();
                d["format"] = json!(fmt);
                d["continuation"] = json!(show_ops(&cont));
                d["op_index"] = json!(i);
                d["op"] = json!(op.show());
                d["expected"] = json!(want.show());
                d["observed"] = json!(got.show());
                r.violation(format!("{}:restored_diverges:{}", S::NAME, fmt), sub, id, d);
                return;
            }
        }
    }
    r.distinct(hkey(&[&S::NAME, &seed, &show_ops(&hist)]));
    r.cov(&format!("type:{}", S::NAME));
    if S::FAMILY.is_block() && forced.is_some() {
        r.cov(&format!("{}:snapshot_index:{}", S::NAME, idx));
        if matches!(S::FAMILY, Family::Block64(_)) {
            r.cov(&format!("{}:snapshot_half_used:{}", S::NAME, half));
        }
    }
    r.sample(json!({"type": S::NAME, "seed": hex(&seed), "history_before_snapshot": show_ops(&hist), "continuation": show_ops(&cont), "image_bytes": bytes.len()}));
}

/// serde of the public core types (and hand-built BlockRng wrappers around them)
fn core_case(sub: &str, id: u64, r: &mut Report) {
    use rand_core::block::{BlockRng, BlockRng64, BlockRngCore};
    use rand_core::{RngCore, SeedableRng};
    let mut p = Prng::new(id);
    let seed: [u8; 32] = p.bytes(32).try_into().unwrap();
    let gens = p.below(4) as usize;
    if p.chance(1, 2) {
        type C = rand_isaac::isaac::IsaacCore;
        let mut a = C::from_seed(seed);
        let mut res = <C as BlockRngCore>::Results::default();
        for _ in 0..gens { a.generate(&mut res); }
        let twin = a.clone();
        for (fmt, restored) in [("bincode", bincode::deserialize::<C>(&bincode::serialize(&a).unwrap()).map_err(|e| e.to_string())),
                                ("json", serde_json::from_str::<C>(&serde_json::to_string(&a).unwrap()).map_err(|e| e.to_string()))] {
            r.eval();
            match restored {
                Ok(mut b) => {
                    let mut t = twin.clone();
                    let (mut rb, mut rt) = (<C as BlockRngCore>::Results::default(), <C as BlockRngCore>::Results::default());
                    let eq0 = b == t;
                    let mut same = true;
                    for _ in 0..3 { b.generate(&mut rb); t.generate(&mut rt); if !(rb == rt) { same = false; } }
                    if !eq0 || !same {
                        r.violation(format!("IsaacCore:restored_core_differs:{}", fmt), sub, id, json!({"seed": hex(&seed), "generated_blocks": gens, "equal": eq0, "same_blocks": same}));
                        return;
                    }
                }
                Err(e) => { r.violation(format!("IsaacCore:deserialize_failed:{}", fmt), sub, id, json!({"error": e})); return; }
            }
        }
        // BlockRng<IsaacCore> built by hand, snapshot mid-block
        let mut w = BlockRng::new(C::from_seed(seed));
        for _ in 0..p.below(600) { w.next_u32(); }
        let mut w2: BlockRng<C> = bincode::deserialize(&bincode::serialize(&w).unwrap()).unwrap();
        for k in 0..600 {
            r.eval();
            if w.next_u32() != w2.next_u32() {
                r.violation("BlockRng<IsaacCore>:restored_diverges".into(), sub, id, json!({"seed": hex(&seed), "position": k}));
                return;
            }
        }
        r.cov("cores:IsaacCore");
    } else {
        type C = rand_isaac::isaac64::Isaac64Core;
        let mut a = C::from_seed(seed);
        let mut res = <C as BlockRngCore>::Results::default();
        for _ in 0..gens { a.generate(&mut res); }
        let twin = a.clone();
        for (fmt, restored) in [("bincode", bincode::deserialize::<C>(&bincode::serialize(&a).unwrap()).map_err(|e| e.to_string())),
                                ("json", serde_json::from_str::<C>(&serde_json::to_string(&a).unwrap()).map_err(|e| e.to_string()))] {
            r.eval();
            match restored {
                Ok(mut b) => {
                    let mut t = twin.clone();
                    let (mut rb, mut rt) = (<C as BlockRngCore>::Results::default(), <C as BlockRngCore>::Results::default());
                    let eq0 = b == t;
                    let mut same = true;
                    for _ in 0..3 { b.generate(&mut rb); t.generate(&mut rt); if !(rb == rt) { same = false; } }
                    if !eq0 || !same {
                        r.violation(format!("Isaac64Core:restored_core_differs:{}", fmt), sub, id, json!({"seed": hex(&seed), "generated_blocks": gens, "equal": eq0, "same_blocks": same}));
                        return;
                    }
                }
                Err(e) => { r.violation(format!("Isaac64Core:deserialize_failed:{}", fmt), sub, id, json!({"error": e})); return; }
            }
        }
        let mut w = BlockRng64::new(C::from_seed(seed));
        for _ in 0..p.below(600) { w.next_u32(); }
        let mut w2: BlockRng64<C> = bincode::deserialize(&bincode::serialize(&w).unwrap()).unwrap();
        for k in 0..600 {
            r.eval();
            if w.next_u32() != w2.next_u32() {
                r.violation("BlockRng64<Isaac64Core>:restored_diverges".into(), sub, id, json!({"seed": hex(&seed), "position": k}));
                return;
            }
        }
        r.cov("cores:Isaac64Core");
    }
    r.distinct(hkey(&[&"cores", &seed[..].to_vec(), &gens]));
}

/// structured states snapshotted right after seeding (enumerated, never thinned:
/// it is small, and it is what a word-size or byte-order slip in a hand-written
/// (de)serializer trips over): id = type * 64 + pattern
fn structured_case<S: Spec>(sub: &str, id: u64, r: &mut Report) {
    let pat = (id % 64) as usize;
    let n = S::SEED_LEN;
    let mut p = Prng::new(id ^ 0x57a7e);
    let mut seed = p.bytes(n);
    let lanes: Vec<usize> = match pat {
        0 => vec![0, 1, 2, 3],
        1 => vec![4, 5, 6, 7],
        2 => vec![0],
        3 => vec![7],
        4 => vec![0, 2, 4, 6],
        5 => vec![1, 2, 3, 4, 5, 6, 7],
        6 | 7 | 8 | 9 => vec![],
        _ => return,
    };
    for w in seed.chunks_mut(8) { for &l in &lanes { if l < w.len() { w[l] = 0; } } }
    match pat {
        6 => seed[..n / 2].iter_mut().for_each(|b| *b = 0),
        7 => seed[n / 2..].iter_mut().for_each(|b| *b = 0),
        8 => { seed.iter_mut().for_each(|b| *b = 0); seed[n - 1] = 0x80; }
        9 => { seed.iter_mut().for_each(|b| *b = 0xff); }
        _ => {}
    }
    if seed.iter().all(|&b| b == 0) { return; }
    let orig = S::from_seed(&seed);
    for (fmt, res) in [("bincode", S::from_bincode(&S::bincode(&orig).unwrap()).unwrap()), ("json", S::from_json(&S::json(&orig).unwrap()).unwrap())] {
        r.eval();
        match res {
            Ok(mut g) => {
                let mut o = orig.clone();
                for k in 0..40 {
                    let op = if k % 3 == 0 { Op::U64 } else { Op::U32 };
                    if apply_ext::<S>(&mut g, &op) != apply_ext::<S>(&mut o, &op) {
                        r.violation(format!("{}:restored_diverges:{}", S::NAME, fmt), sub, id, json!({"type": S::NAME, "seed": hex(&seed), "op_index": k}));
                        return;
                    }
                }
            }
            Err(e) => {
                r.violation(format!("{}:deserialize_failed:{}", S::NAME, fmt), sub, id, json!({"type": S::NAME, "seed": hex(&seed), "error": e,
                    "note": "the generator's own snapshot, taken right after from_seed with a structured seed, is refused"}));
                return;
            }
        }
    }
    r.cov("structured_snapshots");
    r.distinct(hkey(&[&"structured", &S::NAME, &seed]));
}

/// Snapshots taken while the buffer of an IsaacRng holds a RARE WORD (0 or all ones,
/// about 2^-31 per word) ahead of the read position. Such states cannot be aimed at
/// through the API (the output is a cryptographic function of the seed), so they are
/// searched for: each case scans 4096 blocks of one stream (about 1 us per block) and,
/// on a hit, snapshots the generator at several read positions inside that block.
/// Encodings that treat particular values specially (sparse / run-length / "skip
/// defaults") show up only here.
fn rare_word_case(sub: &str, id: u64, r: &mut Report) {
    use rand_core::{RngCore, SeedableRng};
    type S = SIsaac;
    let mut p = Prng::new(id);
    let seed: [u8; 32] = p.bytes(32).try_into().unwrap();
    let blocks = if crate::util::REDUCED.load(std::sync::atomic::Ordering::Relaxed) { 4 } else { 4096 };
    let mut g = rand_isaac::IsaacRng::from_seed(seed);
    let mut buf = [0u8; 1024];
    let mut hits: Vec<(usize, usize, u32)> = Vec::new();
    for blk in 0..blocks {
        g.fill_bytes(&mut buf);
        for (j, w) in buf.chunks_exact(4).enumerate() {
            let v = u32::from_le_bytes([w[0], w[1], w[2], w[3]]);
            if v == 0 || v == u32::MAX {
                hits.push((blk, j, v));
            }
        }
    }
    r.covn("rare_word_blocks_scanned", blocks as u64);
    for (blk, j, v) in hits.into_iter().take(2) {
        // the same stream again, up to the block that holds the rare word at position j
        let mut g = rand_isaac::IsaacRng::from_seed(seed);
        for _ in 0..blk { g.fill_bytes(&mut buf); }
        for pos in [1usize, j / 2 + 1, j, j + 1, 255] {
            let mut orig = g.clone();
            for _ in 0..pos.min(255) { orig.next_u32(); }
            let mut twin = orig.clone();
            let bytes = S::bincode(&orig).unwrap();
            let text = S::json(&orig).unwrap();
            let desc = json!({"type": "IsaacRng", "seed": hex(&seed), "block": blk, "rare_word": hx32(v), "rare_word_position_in_block": j, "words_read_from_block": pos.min(255)});
            for (fmt, res) in [("bincode", S::from_bincode(&bytes).unwrap()), ("json", S::from_json(&text).unwrap())] {
                r.eval();
                let mut d = desc.clone();
                d["format"] = json!(fmt);
                match res {
                    Err(e) => { d["error"] = json!(e); r.violation(format!("IsaacRng:deserialize_failed:{}:rare_word_in_buffer", fmt), sub, id, d); return; }
                    Ok(mut back) => {
                        let mut t2 = twin.clone();
                        for k in 0..600 {
                            if back.next_u32() != t2.next_u32() {
                                d["continuation_word"] = json!(k);
                                r.violation(format!("IsaacRng:restored_future_differs:{}:rare_word_in_buffer", fmt), sub, id, d);
                                return;
                            }
                        }
                    }
                }
            }
            // serializing must not disturb the original
            r.eval();
            if orig.next_u32() != twin.next_u32() {
                r.violation("IsaacRng:serialize_disturbed_the_generator:rare_word_in_buffer".into(), sub, id, desc);
                return;
            }
        }
        r.cov("rare_word_snapshots");
        r.cov(&format!("rare_word:{}", if v == 0 { "zero" } else { "ones" }));
        r.distinct(hkey(&[&"rare_word", &seed.to_vec(), &blk]));
    }
}

fn case(sub: &str, id: u64, r: &mut Report) {
    match sub {
        "rare_word" => rare_word_case(sub, id, r),
        "structured" => {
            let ti = (id / 64) as usize;
            with_spec!(ti, S => { if S::HAS_SERDE { structured_case::<S>(sub, id, r) } });
        }
        "cores" => core_case(sub, id, r),
        // forced snapshot index: id = type*4096 + index*2 + half
        "index" => {
            let ti = (id / 4096) as usize;
            let idx = ((id % 4096) / 2) as usize;
            let half = id % 2 == 1;
            // every snapshot position is continued with each kind of first operation
            for first in [Op::U32, Op::U64, Op::Fill(1), Op::Fill(9)] {
                with_spec!(ti, S => { if S::HAS_SERDE { case_typed::<S>(sub, id, Some((idx, half)), Some(first.clone()), r) } });
            }
        }
        _ => {
            let ti = SERDE_TYPES[Prng::new(id ^ 0x7171).below(18) as usize];
            with_spec!(ti, S => { if S::HAS_SERDE { case_typed::<S>(sub, id, None, None, r) } });
        }
    }
}

pub fn run(ctx: &Ctx, only: Option<&Only>) -> Report {
    if let Some(o) = only {
        let mut r = Report::new();
        let sub = o.sub.to_string();
        run_case(o.sub, o.id, &mut r, &|id, r: &mut Report| case(&sub, id, r));
        return r;
    }
    let mut ids = Vec::new();
    for ti in [IDX_ISAAC, IDX_ISAAC64] {
        for idx in 0..=256usize {
            ids.push((ti * 4096 + idx * 2) as u64);
            if ti == IDX_ISAAC64 {
                ids.push((ti * 4096 + idx * 2 + 1) as u64);
            }
        }
    }
    let mut total = par(ctx.threads, |t, r| {
        for (k, &id) in ids.iter().enumerate() {
            if k % ctx.threads == t && ctx.keep(k as u64) {
                run_case("index", id, r, &|id, r: &mut Report| case("index", id, r));
            }
        }
    });
    let structured: Vec<u64> = SERDE_TYPES.iter().flat_map(|&ti| (0..10u64).map(move |k| ti as u64 * 64 + k)).collect();
    total.merge(par(ctx.threads, |t, r| {
        for (k, &id) in structured.iter().enumerate() {
            if k % ctx.threads == t {
                run_case("structured", id, r, &|id, r: &mut Report| case("structured", id, r));
            }
        }
    }));
    let secs = if ctx.tier_thorough { ctx.budget_s } else { 0.0 };
    total.merge(drive(ctx, "snapshot", 20_000, secs * 0.9, |id, r| case("snapshot", id, r)));
    total.merge(drive(ctx, "cores", 1_000, secs * 0.1, |id, r| case("cores", id, r)));
    // 6000 x 4096 blocks x 256 words: about 2.9 expected rare words per unit of scale
    total.merge(drive(ctx, "rare_word", 6_000, secs * 0.3, |id, r| case("rare_word", id, r)));
    total.floor("rare_word_blocks_scanned", 20_000_000);
    total.floor("structured_snapshots", 100);
    total.floor("cores:IsaacCore", 100);
    total.floor("cores:Isaac64Core", 100);
    for &ti in &SERDE_TYPES {
        total.floor(&format!("type:{}", TYPE_NAMES[ti]), 100);
    }
    for i in 0..=256 {
        total.floor(&format!("IsaacRng:snapshot_index:{}", i), 1);
        total.floor(&format!("Isaac64Rng:snapshot_index:{}", i), 2);
    }
    total.floor("Isaac64Rng:snapshot_half_used:true", 100);
    total.floor("Isaac64Rng:snapshot_half_used:false", 100);
    total
}
