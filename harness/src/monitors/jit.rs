//! JitterRng monitors on scripted, call-counting timers:
//! C12 (lock-step with the documented procedure, values and reading counts),
//! C13 (test_timer result classifier), C15 (bijectivity of the pool updates,
//! through the cfg(rngs_verif) hooks), C16 (at-most-once ledger over clones).

use super::{drive, run_case, Only};
use crate::drive::*;
use crate::models::gf2::{BitVec, Mat};
use crate::models::jitter::{self, CollectStats, Jitter};
use crate::util::*;
use rand_core::RngCore;
use rand_jitter::{JitterRng, TimerError};
use serde_json::{json, Value};

#[derive(Clone, Debug, PartialEq)]
pub enum JOp {
    U32,
    U64,
    Fill(usize),
    Stats(bool),
    Rounds(u8),
    /// clone instance k into a new instance (C16)
    Clone,
    /// `dst.clone_from(&src)` into an existing instance; payload = source index (C16)
    CloneFrom(usize),
    /// the documented start-up idiom `if let Ok(r) = test_timer() { set_rounds(r) }`
    TestTimer,
    /// the instance is replaced by `fresh.clone_from(&self)` where `fresh` is a
    /// new instance on the same timer that has a half pending (C12)
    ReplaceViaCloneFrom,
    /// the timer panics at the k-th reading from now (one-shot); the NEXT operation
    /// runs under catch_unwind and the generator is used on afterwards
    FaultInNext(usize),
}
impl JOp {
    pub fn show(&self) -> String {
        match self {
            JOp::U32 => "u32".into(),
            JOp::U64 => "u64".into(),
            JOp::Fill(n) => format!("fill({})", n),
            JOp::Stats(v) => format!("timer_stats({})", v),
            JOp::Rounds(r) => format!("set_rounds({})", r),
            JOp::Clone => "clone".into(),
            JOp::CloneFrom(s) => format!("clone_from(#{})", s),
            JOp::TestTimer => "test_timer".into(),
            JOp::ReplaceViaCloneFrom => "replace_via_clone_from".into(),
            JOp::FaultInNext(k) => format!("timer_fault_in_next_op(+{})", k),
        }
    }
}

#[derive(Debug, PartialEq, Clone)]
pub enum JOut {
    U32(u32),
    U64(u64),
    Bytes(Vec<u8>),
    I64(i64),
    Unit,
}
impl JOut {
    fn show(&self) -> String {
        match self {
            JOut::U32(v) => hx32(*v),
            JOut::U64(v) => hx64(*v),
            JOut::Bytes(b) => hex(b),
            JOut::I64(v) => format!("{}", v),
            JOut::Unit => "()".into(),
        }
    }
}

fn real_apply<F: Fn() -> u64 + Send + Sync>(g: &mut JitterRng<F>, op: &JOp) -> JOut {
    match op {
        JOp::U32 => JOut::U32(g.next_u32()),
        JOp::U64 => JOut::U64(g.next_u64()),
        JOp::Fill(n) => {
            let mut b = vec![0xEEu8; *n];
            g.fill_bytes(&mut b);
            JOut::Bytes(b)
        }
        JOp::Stats(v) => JOut::I64(g.timer_stats(*v)),
        JOp::Rounds(r) => {
            g.set_rounds(*r);
            JOut::Unit
        }
        JOp::Clone | JOp::CloneFrom(_) | JOp::ReplaceViaCloneFrom | JOp::FaultInNext(_) => JOut::Unit,
        JOp::TestTimer => {
            // result: the rounds adopted (0 = test failed, rounds unchanged)
            match g.test_timer() {
                Ok(rr) if rr > 0 => {
                    g.set_rounds(rr);
                    JOut::I64(rr as i64)
                }
                _ => JOut::I64(0),
            }
        }
    }
}

fn model_apply(m: &mut Jitter, op: &JOp, cur: &mut ScriptCursor, st: &mut CollectStats) -> JOut {
    match op {
        JOp::U32 => JOut::U32(m.next_u32(cur, st)),
        JOp::U64 => JOut::U64(m.next_u64(cur, st)),
        JOp::Fill(n) => JOut::Bytes(m.fill_bytes(*n, cur, st)),
        JOp::Stats(v) => JOut::I64(m.timer_stats(*v, cur)),
        JOp::Rounds(r) => {
            m.rounds = *r;
            JOut::Unit
        }
        JOp::Clone | JOp::CloneFrom(_) | JOp::ReplaceViaCloneFrom | JOp::FaultInNext(_) => JOut::Unit,
        JOp::TestTimer => {
            m.test_timer_effect(cur);
            JOut::I64(-1) // verdict not modelled: the caller adopts the real one
        }
    }
}

fn show_jops(ops: &[JOp]) -> String {
    ops.iter().map(|o| o.show()).collect::<Vec<_>>().join(",")
}

fn script_json(t: &ScriptedTimer, upto: usize) -> Value {
    let n = upto.min(t.0.readings.len()).min(400);
    json!({"readings_prefix": t.0.readings[..n].iter().map(|v| v.to_string()).collect::<Vec<_>>(),
           "scripted_readings": t.0.readings.len(), "tail_seed": t.0.tail_seed.to_string()})
}

// ===========================================================================
// C12

fn gen_jop(p: &mut Prng, allow_stats: bool) -> JOp {
    match p.below(20) {
        0..=5 => JOp::U32,
        6..=10 => JOp::U64,
        11..=14 => JOp::Fill(p.below(18) as usize),
        15 | 16 if allow_stats => JOp::Stats(p.chance(1, 2)),
        17 => JOp::Rounds(*p.pick(&[1u8, 1, 2, 3, 4, 7, 16, 64, 255])),
        18 if allow_stats => JOp::ReplaceViaCloneFrom,
        19 if allow_stats => JOp::FaultInNext(p.below(12) as usize),
        _ => JOp::U32,
    }
}

/// explicit (literal) case: {"readings":[..], "tail_seed":"..", "rounds":r, "ops":["u64","u32","fill(5)","timer_stats(true)","set_rounds(3)"]}
fn parse_explicit(v: &Value) -> Option<(Vec<u64>, u64, u8, Vec<JOp>)> {
    let readings: Vec<u64> = v["readings"].as_array()?.iter().map(|x| match x {
        Value::String(s) => s.parse().unwrap(),
        n => n.as_u64().unwrap(),
    }).collect();
    let tail = v["tail_seed"].as_str().map(|s| s.parse().unwrap()).unwrap_or(0);
    let rounds = v["rounds"].as_u64().unwrap_or(64) as u8;
    let mut ops = Vec::new();
    for o in v["ops"].as_array()? {
        let s = o.as_str()?;
        let arg = || s[s.find('(').unwrap() + 1..s.len() - 1].to_string();
        ops.push(if s == "u32" { JOp::U32 } else if s == "u64" { JOp::U64 }
            else if s.starts_with("fill") { JOp::Fill(arg().parse().ok()?) }
            else if s.starts_with("timer_stats") { JOp::Stats(arg() == "true") }
            else if s.starts_with("set_rounds") { JOp::Rounds(arg().parse().ok()?) }
            else { return None });
    }
    Some((readings, tail, rounds, ops))
}

fn c12_run_script(readings: Vec<u64>, tail: u64, rounds: u8, ops: &[JOp], class: &str, sub: &str, id: u64, r: &mut Report) {
    let timer = ScriptedTimer::new(readings, tail);
    let mut cur = timer.model_cursor();
    // rounds == 0 encodes "leave the documented default of new_with_timer (64), after a
    // system-clock JitterRng::new() ran in this process" (nothing may carry over)
    if rounds == 0 {
        let _ = JitterRng::new().map(|mut g| g.next_u32());
        r.cov("default_rounds_after_system_clock_instance");
    }
    let mut real = JitterRng::new_with_timer(timer.closure());
    let mut model = Jitter::new();
    if rounds != 0 {
        real.set_rounds(rounds);
        model.rounds = rounds;
    }
    let mut st = CollectStats::default();
    let mut fault_armed: Option<usize> = None;
    for (i, op) in ops.iter().enumerate() {
        if let JOp::FaultInNext(k) = op {
            fault_armed = Some(*k);
            continue;
        }
        if let Some(k) = fault_armed.take() {
            if matches!(op, JOp::U32 | JOp::U64 | JOp::Fill(_) | JOp::Stats(_) | JOp::TestTimer) {
                timer.inject_fault_after(k);
                let res = guarded(|| real_apply(&mut real, op));
                let fired = !timer.fault_pending();
                timer.clear_fault();
                match res {
                    Err(c) if c.message.contains(TIMER_FAULT_MSG) => {
                        // the aborted call returned nothing: no half is pending afterwards; the
                        // partially mixed pool is taken over from the hook, the timer position too
                        model.pool = real.verif_pool();
                        cur.pos = timer.calls();
                        // timer_stats / test_timer are not output calls: a half that was
                        // pending stays pending (in the register they folded into)
                        let output_call = matches!(op, JOp::U32 | JOp::U64 | JOp::Fill(_));
                        if output_call {
                            model.half_pending = false;
                        }
                        r.eval();
                        if output_call && real.verif_half_pending() {
                            r.violation("JitterRng:half_pending_after_aborted_call".into(), sub, id, json!({
                                "ops": show_jops(ops), "op_index": i, "op": op.show(),
                                "note": "the timer closure panicked inside the call (caught by the caller); the call handed nothing out, yet a half is marked pending"}));
                            return;
                        }
                        r.cov("op:timer_fault_recovered");
                        continue;
                    }
                    Err(c) => { r.violation(format!("JitterRng:{}", c.signature()), sub, id, json!({"ops": show_jops(ops), "op_index": i})); return; }
                    Ok(_) if !fired => {
                        // the call ended before the faulty reading: cannot be replayed on the
                        // model any more (it already ran): abandon this script
                        r.cov("fault_not_reached");
                        return;
                    }
                    Ok(_) => { r.inconclusive("fault fired but the call returned".into()); return; }
                }
            }
        }
        if *op == JOp::ReplaceViaCloneFrom {
            // Clone::clone_from into an instance that itself holds a pending half:
            // afterwards the destination is a clone of `real` (no half pending)
            let mut fresh = JitterRng::new_with_timer(timer.closure());
            fresh.set_rounds(1);
            let _ = fresh.next_u32();
            let mut fm = Jitter::new();
            fm.rounds = 1;
            let _ = fm.next_u32(&mut cur, &mut st);
            fresh.clone_from(&real);
            real = fresh;
            model = model.clone_model();
            r.cov("op:replace_via_clone_from");
            continue;
        }
        let mut want = model_apply(&mut model, op, &mut cur, &mut st);
        let got = real_apply(&mut real, op);
        if *op == JOp::TestTimer {
            // adopt the real verdict (C13 judges it); values, pool and readings stay checked
            if let JOut::I64(rr) = got {
                if rr > 0 { model.rounds = rr as u8; }
            }
            want = got.clone();
        }
        r.eval();
        let kind = op.show().split('(').next().unwrap().to_string();
        if got != want {
            r.violation(format!("JitterRng:{}:value", kind), sub, id, json!({
                "script_class": class, "rounds_initial": rounds, "ops": show_jops(ops), "op_index": i, "op": op.show(),
                "expected": want.show(), "observed": got.show(), "timer": script_json(&timer, cur.pos)}));
            return;
        }
        r.eval();
        if timer.calls() != cur.pos {
            r.violation(format!("JitterRng:{}:timer_readings", kind), sub, id, json!({
                "script_class": class, "rounds_initial": rounds, "ops": show_jops(ops), "op_index": i, "op": op.show(),
                "expected_readings_total": cur.pos, "observed_readings_total": timer.calls(), "timer": script_json(&timer, cur.pos)}));
            return;
        }
        // hooked state agrees with the model's register (stronger than outputs alone)
        r.eval();
        if real.verif_pool() != model.pool || real.verif_half_pending() != model.half_pending {
            r.violation(format!("JitterRng:{}:pool_state", kind), sub, id, json!({
                "ops": show_jops(ops), "op_index": i, "expected_pool": hx64(model.pool), "observed_pool": hx64(real.verif_pool()),
                "expected_half_pending": model.half_pending, "observed_half_pending": real.verif_half_pending()}));
            return;
        }
        r.cov(&format!("op:{}", kind));
        if let JOp::Rounds(x) = op {
            r.cov(&format!("rounds:{}", x));
        }
    }
    r.covn("stuck_measurements", st.stuck as u64);
    r.covn("measurements", st.measurements as u64);
    r.cov(&format!("script_class:{}", class));
    r.cov(&format!("rounds:{}", rounds));
    r.distinct(hkey(&[&id, &show_jops(ops)]));
    r.sample(json!({"script_class": class, "rounds": rounds, "ops": show_jops(ops), "readings_consumed": cur.pos,
                    "measurements": st.measurements, "stuck": st.stuck}));
}

/// pick a rare-value target for a collection starting from pool `pool0`
pub fn pick_target(p: &mut Prng, pool0: u64, rounds: u8) -> Target {
    let t = match p.below(10) {
        0 | 1 => Target::Exact(pool0),          // the word handed out before (0 for a fresh generator)
        2 => Target::Exact(0),
        3 => Target::Exact(u64::MAX),
        4 | 5 => Target::Upper(0),
        6 => Target::Lower(0),
        7 => Target::EqualHalves,
        8 => Target::Upper((pool0 >> 32) as u32),
        _ => Target::Lower(pool0 as u32),
    };
    // two deltas of 31 free bits cannot meet 64 equations
    match t {
        Target::Exact(_) if rounds < 2 => if p.chance(1, 2) { Target::Upper(0) } else { Target::Lower(0) },
        t => t,
    }
}

/// C12 on SOLVED scripts: after a short ordinary prefix, the next collection is made
/// to produce a rare word (equal to the previous word, 0, all ones, a zero half …)
/// and is consumed through each call width.
fn c12_solved_case(sub: &str, id: u64, r: &mut Report) {
    let mut p = Prng::new(id);
    let rounds = *p.pick(&[1u8, 2, 2, 3, 3, 5, 64]);
    let mut ops: Vec<JOp> = (0..p.below(4)).map(|_| match p.below(6) {
        0 | 1 => JOp::U64,
        2 | 3 => JOp::U32,
        4 => JOp::Fill(p.below(17) as usize),
        _ => JOp::Stats(p.chance(1, 2)),
    }).collect();
    let tail = p.u64();
    // the model tells where the prefix ends and which pool the collection starts from
    let pre = gen_script(&mut p, 0, 2400);
    let probe = ScriptedTimer::new(pre.clone(), tail);
    let mut cur = probe.model_cursor();
    let mut m = Jitter::new();
    m.rounds = rounds;
    let mut st = CollectStats::default();
    for op in &ops {
        model_apply(&mut m, op, &mut cur, &mut st);
    }
    if cur.pos > pre.len() {
        r.inconclusive("solved: prefix longer than its script".into());
        return;
    }
    let target = pick_target(&mut p, m.pool, rounds);
    let start = if cur.pos == 0 { 1_000_000 + p.below(1 << 40) } else { pre[cur.pos - 1].wrapping_add(p.range(1, 5000)) };
    let solved = match solve_collection(&mut p, m.pool, rounds, start, target) {
        Some(s) => s,
        None => { r.cov("solved:no_solution"); return; }
    };
    let mut readings = pre[..cur.pos].to_vec();
    readings.extend(solved);
    // consumption: a pending half (if any) is served first by u32-sized calls
    match p.below(4) {
        0 => ops.extend([JOp::U64, JOp::U64]),
        1 => ops.extend([JOp::U32, JOp::U32, JOp::U32, JOp::U32]),
        2 => ops.extend([JOp::Fill(8), JOp::Fill(4), JOp::Fill(3), JOp::Fill(12)]),
        _ => ops.extend([JOp::U32, JOp::U32, JOp::U64, JOp::U32]),
    }
    r.cov(&format!("solved_target:{}", target.name()));
    c12_run_script(readings, tail, rounds, &ops, "solved", sub, id, r);
}

fn c12_case(sub: &str, id: u64, explicit: Option<&Value>, r: &mut Report) {
    if sub == "solved" && explicit.is_none() {
        return c12_solved_case(sub, id, r);
    }
    if let Some(e) = explicit {
        if let Some((readings, tail, rounds, ops)) = parse_explicit(e) {
            c12_run_script(readings, tail, rounds, &ops, "explicit", sub, id, r);
        } else {
            r.inconclusive("unparsable explicit case".into());
        }
        return;
    }
    let mut p = Prng::new(id);
    // the very long stall class is expensive: about 1 case in 400
    let class = if p.chance(1, 400) { 10 } else { let c = p.below(12) as usize; if c == 10 { 12 } else { c } };
    let n = p.range(32, 700) as usize;
    let readings = gen_script(&mut p, class, n);
    let rounds = if class == 10 { *p.pick(&[1u8, 2, 3]) } else { *p.pick(&[1u8, 1, 1, 2, 2, 3, 5, 8, 64, 255, 0]) };
    let n_ops = if rounds >= 64 || rounds == 0 { p.range(1, 4) } else { p.range(2, 14) } as usize;
    let mut ops: Vec<JOp> = (0..n_ops).map(|_| {
        let o = gen_jop(&mut p, true);
        if rounds >= 64 || rounds == 0 { if let JOp::Fill(k) = o { return JOp::Fill(k % 9); } }
        o
    }).collect();
    // sometimes one bulk request (>= 2048 bytes: 256+ collections) on a slow / coarse
    // clock, where stuck decisions depend on the exact history of deltas
    if rounds == 1 && p.chance(1, 40) {
        let big = *p.pick(&[2048usize, 2049, 2056, 4096, 3000]);
        let at = p.below(ops.len() as u64 + 1) as usize;
        ops.insert(at, JOp::Fill(big));
        r.cov("bulk_fill");
    }
    // sometimes the documented start-up idiom comes first (1601 more readings)
    let mut readings = readings;
    if class != 10 && rounds < 64 && rounds != 0 && p.chance(1, 6) {
        let at = p.below(ops.len() as u64 + 1) as usize;
        ops.insert(at, JOp::TestTimer);
        if p.chance(2, 3) {
            // a script on which the test passes, so that the adopted rounds matter
            let mut pre = gen_script(&mut p, 0, 1700);
            let base = *pre.last().unwrap();
            pre.extend(readings.iter().map(|v| v.wrapping_add(base)));
            readings = pre;
        }
    }
    c12_run_script(readings, p.u64(), rounds, &ops, SCRIPT_CLASSES[class], sub, id, r);
}

pub fn run_c12(ctx: &Ctx, only: Option<&Only>) -> Report {
    if let Some(o) = only {
        let mut r = Report::new();
        let sub = o.sub.to_string();
        let ex = o.explicit.cloned();
        run_case(o.sub, o.id, &mut r, &|id, r: &mut Report| c12_case(&sub, id, ex.as_ref(), r));
        return r;
    }
    let secs = if ctx.tier_thorough { ctx.budget_s } else { 0.0 };
    let mut total = drive(ctx, "script", 24_000, secs * 0.8, |id, r| c12_case("script", id, None, r));
    total.merge(drive(ctx, "solved", 6_000, secs * 0.2, |id, r| c12_case("solved", id, None, r)));
    for t in ["exact_zero", "exact_ones", "exact_value", "upper_zero", "lower_zero", "equal_halves"] {
        total.floor(&format!("solved_target:{}", t), 50);
    }
    total.floor("stuck_measurements", 100);
    for op in ["u32", "u64", "fill", "timer_stats", "set_rounds", "test_timer", "replace_via_clone_from", "timer_fault_recovered"] {
        total.floor(&format!("op:{}", op), 100);
    }
    total.floor("rounds:1", 10);
    total.floor("bulk_fill", 20);
    total.floor("rounds:255", 10);
    total.floor("default_rounds_after_system_clock_instance", 100);
    for c in SCRIPT_CLASSES {
        total.floor(&format!("script_class:{}", c), if c == "long_stall" { 4 } else { 10 });
    }
    total
}

// ===========================================================================
// C13

const PROBES: usize = 400;
const WARM: usize = 100;

#[derive(Default, Debug, Clone)]
pub struct TtFacts {
    pub probes_executed: usize,
    pub zero_reading_probe: Option<usize>,
    pub zero_delta_probe: Option<usize>,
    pub backwards_measured: u32, // probes 100..399
    pub backwards_all: u32,
    pub sum_var: u64,   // Σ_{i>100} |δ_i − δ_{i−1}|
    pub first_abs: u64, // |δ_100|
    pub count_mod: u32,
    pub count_stuck: u32,
}

/// Recompute the documented conditions from the readings (own code, exact
/// 64-bit arithmetic for the variation, wrapping i32 for the stuck test).
pub fn tt_facts(reading: &dyn Fn(usize) -> u64, probes: usize) -> TtFacts {
    let mut f = TtFacts::default();
    let mut prev_delta: i64 = 0;
    let (mut d1, mut d2) = (0i32, 0i32);
    for i in 0..probes {
        let t1 = reading(1 + 4 * i);
        let t2 = reading(4 + 4 * i);
        f.probes_executed = i + 1;
        if t1 == 0 || t2 == 0 {
            f.zero_reading_probe = Some(i);
            return f;
        }
        let delta = t2.wrapping_sub(t1) as u32 as i32;
        if delta == 0 {
            f.zero_delta_probe = Some(i);
            return f;
        }
        if t2 <= t1 {
            f.backwards_all += 1;
        }
        if i < WARM {
            continue;
        }
        // stuck test on (δ, δ', δ'') starting from (0,0) at the first measured probe
        let s2 = d1.wrapping_sub(delta);
        let s3 = s2.wrapping_sub(d2);
        d1 = delta;
        d2 = s2;
        if delta == 0 || s2 == 0 || s3 == 0 {
            f.count_stuck += 1;
        }
        if t2 <= t1 {
            f.backwards_measured += 1;
        }
        if delta % 100 == 0 {
            f.count_mod += 1;
        }
        let var = (delta as i64 - prev_delta).unsigned_abs();
        if i == WARM {
            f.first_abs = var;
        } else {
            f.sum_var += var;
        }
        prev_delta = delta as i64;
    }
    f
}

fn bitlen(v: u64) -> u32 {
    64 - v.leading_zeros()
}

/// Ok(()) if the result is consistent with at least one tenable reading of the
/// documented conditions; Err(reason) otherwise.
pub fn tt_judge(res: &Result<u8, TimerError>, f: &TtFacts, set_rounds_panicked: bool) -> Result<&'static str, String> {
    let full = f.probes_executed == PROBES && f.zero_reading_probe.is_none() && f.zero_delta_probe.is_none();
    let m1 = (f.first_abs + f.sum_var) / 300; // mean incl. the priming term
    let m2 = f.sum_var / 299; // mean of the 299 successive changes
    let tiny_any = m1 < 2 || m2 < 2;
    let tiny_all = (f.first_abs + f.sum_var) <= 300 && f.sum_var <= 299;
    let backwards_any = f.backwards_all > 3;
    let backwards_all = f.backwards_measured > 3;
    let coarse_b = f.count_mod > 270;
    let stuck = f.count_stuck > 270;
    match res {
        Err(TimerError::NoTimer) => {
            if f.zero_reading_probe.is_some() { Ok("Err(NoTimer)") } else { Err("NoTimer returned but no probe reading was zero".into()) }
        }
        Err(TimerError::CoarseTimer) => {
            if f.zero_delta_probe.is_some() || (full && coarse_b) { Ok("Err(CoarseTimer)") }
            else { Err(format!("CoarseTimer returned but no zero delta and only {} of 300 deltas are multiples of 100", f.count_mod)) }
        }
        Err(TimerError::NotMonotonic) => {
            if full && backwards_any { Ok("Err(NotMonotonic)") } else { Err(format!("NotMonotonic returned but only {} (all probes) backward probes", f.backwards_all)) }
        }
        Err(TimerError::TinyVariations) => {
            if full && tiny_any { Ok("Err(TinyVariations)") } else { Err(format!("TinyVariations returned but mean variation is {} / {}", m1, m2)) }
        }
        Err(TimerError::TooManyStuck) => {
            if full && stuck { Ok("Err(TooManyStuck)") } else { Err(format!("TooManyStuck returned but only {} of 300 probes are stuck", f.count_stuck)) }
        }
        Err(_) => Err("undocumented TimerError variant".into()),
        Ok(r) => {
            let r = *r as u64;
            if r == 0 {
                return Err("Ok(0): zero rounds (set_rounds(test_timer()?) trips the rounds > 0 assertion)".into());
            }
            if set_rounds_panicked {
                return Err(format!("set_rounds({}) panicked on the returned value", r));
            }
            if r > 128 {
                return Err(format!("Ok({}) > 128", r));
            }
            if !full {
                return Err(format!("Ok({}) although a zero reading / zero delta occurred in probe {:?}/{:?}", r, f.zero_reading_probe, f.zero_delta_probe));
            }
            if backwards_all { return Err(format!("Ok({}) with {} backward probes among the measured ones", r, f.backwards_measured)); }
            if tiny_all { return Err(format!("Ok({}) with mean variation <= 1 ({} / {})", r, m1, m2)); }
            if coarse_b { return Err(format!("Ok({}) with {} of 300 deltas multiples of 100", r, f.count_mod)); }
            if stuck { return Err(format!("Ok({}) with {} of 300 probes stuck", r, f.count_stuck)); }
            if r * (bitlen(m1) as u64) < 128 && r * (bitlen(m2) as u64) < 128 {
                return Err(format!("Ok({}) too few rounds for mean variation {} / {} (r*bitlen(mean) < 128)", r, m1, m2));
            }
            Ok("Ok")
        }
    }
}

/// Build the 1601 readings of a test_timer run from per-probe deltas.
/// `gap` = advance between probes, `backward[i]` makes probe i's second reading
/// smaller than the first by |delta|.
fn tt_script(p: &mut Prng, deltas: &[i64], start: u64) -> Vec<u64> {
    let mut v = Vec::with_capacity(1 + 4 * deltas.len());
    let mut t = start;
    v.push(t); // priming
    for &d in deltas {
        t = t.wrapping_add(p.range(1, 50));
        v.push(t); // first reading
        v.push(t.wrapping_add(1)); // loop-count readings (value irrelevant to the test)
        v.push(t.wrapping_add(2));
        let t2 = t.wrapping_add(d as u64);
        v.push(t2);
        t = if d > 0 { t2 } else { t.wrapping_add(3) };
    }
    v
}

/// deltas for probes 100..399 whose variation sum hits `target_sum` exactly
/// (first term |δ_100| included), zig-zagging so that nothing is stuck
fn zigzag_deltas(p: &mut Prng, target_sum: u64) -> Vec<i64> {
    let base = p.range(1000, 5000) as i64;
    // |δ_100 − 0| is large (≈ base); the crate counts it, so aim the rest:
    // target_sum = first + Σ v_i  with first = δ_100
    let mut out = Vec::with_capacity(300);
    let first = (target_sum.min(base as u64)).max(1) as i64;
    let first = if target_sum == 0 { 1 } else { first };
    out.push(first);
    let mut rest = target_sum.saturating_sub(first as u64);
    let mut cur = first;
    for i in 1..300 {
        let left = 300 - i as u64;
        let v = if i == 299 { rest } else { (rest / left) + if p.chance(1, 2) && rest > left { 1 } else { 0 } };
        let v = v.min(rest);
        rest -= v;
        // alternate direction, keep positive
        cur = if i % 2 == 1 { cur + v as i64 } else if cur - (v as i64) >= 1 { cur - v as i64 } else { cur + v as i64 };
        out.push(cur);
    }
    out
}

pub const TT_CLASSES: [&str; 14] = [
    "mean_boundary", "pow2_boundary", "backward_3_4", "mod100_270_271", "stuck_270_271", "zero_reading",
    "zero_delta", "huge_deltas", "jittery", "tiny", "table_range", "mixed_script", "staircase", "threshold_combo",
];

fn c13_gen(p: &mut Prng, class: usize) -> Vec<u64> {
    let start = match p.below(3) { 0 => 1 + p.below(1000), 1 => p.u64() >> 8, _ => 1_000_000_007 };
    let warm: Vec<i64> = (0..WARM).map(|_| p.range(1, 100_000) as i64).collect();
    let with_warm = |p: &mut Prng, measured: Vec<i64>| {
        let mut d = warm.clone();
        d.extend(measured);
        tt_script(p, &d, start)
    };
    match class {
        // mean variation m at 0..17 and the sums around 300*m
        0 | 10 => {
            let m = if class == 0 { p.below(18) } else { p.below(40) };
            let off = p.range(0, 4) as i64 - 2;
            let target = (300 * m as i64 + off).max(0) as u64;
            let d = zigzag_deltas(p, target);
            with_warm(p, d)
        }
        1 => {
            let k = p.range(1, 31);
            let m = match p.below(3) { 0 => (1u64 << k) - 1, 1 => 1u64 << k, _ => (1u64 << k) + 1 };
            let off = p.range(0, 2);
            let d = zigzag_deltas(p, 300 * m + off * 299);
            with_warm(p, d)
        }
        2 => {
            // 3 vs 4 (vs more) backward probes, in measured and/or warm-up part
            let nb = *p.pick(&[3usize, 4, 4, 5]);
            let in_warm = p.chance(1, 3);
            let mut d: Vec<i64> = (0..PROBES).map(|_| p.range(50, 100_000) as i64).collect();
            let mut placed = 0;
            while placed < nb {
                let i = if in_warm { p.below(WARM as u64) as usize } else { WARM + p.below(300) as usize };
                if d[i] > 0 {
                    d[i] = -(p.range(1, 1000) as i64);
                    placed += 1;
                }
            }
            tt_script(p, &d, start.max(1 << 20))
        }
        3 => {
            let n100 = *p.pick(&[269usize, 270, 271, 272, 300]);
            let mut d: Vec<i64> = (0..300).map(|_| {
                let v = p.range(101, 90_000) as i64;
                if v % 100 == 0 { v + 1 } else { v }
            }).collect();
            let mut idx: Vec<usize> = (0..300).collect();
            for i in (1..300).rev() { idx.swap(i, p.below(i as u64 + 1) as usize); }
            for &i in idx.iter().take(n100) { d[i] = 100 * p.range(1, 900) as i64; }
            with_warm(p, d)
        }
        4 => {
            // stuck by construction: constant deltas (δ' = 0) for n probes
            let ns = *p.pick(&[268usize, 269, 270, 271, 272, 299]);
            let c = p.range(7, 5000) as i64;
            let mut d: Vec<i64> = Vec::new();
            // free part first (jittery, not multiples of 100), then the constant run
            for _ in 0..(300 - ns) { let v = p.range(101, 90_000) as i64; d.push(if v % 100 == 0 { v + 1 } else { v }); }
            for _ in 0..ns { d.push(if c % 100 == 0 { c + 1 } else { c }); }
            with_warm(p, d)
        }
        5 => {
            let mut s = c13_gen(p, 8);
            let rnd = p.below(400) as usize;
            let probe = *p.pick(&[0usize, 1, 99, 100, 101, 399, rnd]);
            let which = if p.chance(1, 2) { 1 } else { 4 };
            s[which + 4 * probe] = 0;
            s
        }
        6 => {
            let mut s = c13_gen(p, 8);
            let rnd = p.below(400) as usize;
            let probe = *p.pick(&[0usize, 99, 100, 399, rnd]);
            // equal readings, or readings 2^32 apart (truncated delta 0)
            let k = *p.pick(&[0u64, 1 << 32, 1 << 33, (1 << 32) * 5]);
            s[4 + 4 * probe] = s[1 + 4 * probe].wrapping_add(k);
            s
        }
        7 => {
            let d: Vec<i64> = (0..300).map(|_| {
                if p.chance(1, 3) {
                    *p.pick(&[0x7fff_ffffi64, 0x8000_0000, 0x8000_0001, 0xffff_ffff, 0x1_0000_0001, 0x7fff_fffe, 0x1_8000_0000, 1, 2])
                } else {
                    { let k = p.range(1, 33); p.range(1, 1 << k) as i64 }
                }
            }).collect();
            with_warm(p, d)
        }
        8 => {
            let k = p.range(3, 28);
            let d: Vec<i64> = (0..PROBES).map(|_| 1 + p.below(1 << k) as i64).collect();
            tt_script(p, &d, start)
        }
        9 => {
            let base = p.range(1, 50) as i64;
            let amp = p.range(1, 5);
            let d: Vec<i64> = (0..PROBES).map(|_| base + p.below(amp) as i64).collect();
            tt_script(p, &d, start)
        }
        12 => {
            // staircase probe durations: each value repeated 2-3 times, then a constant
            // step up (d, d, 2d, 2d, 3d …): repeated deltas followed by a continuation of
            // the earlier slope; about half of the probes are really stuck
            let d0 = p.range(3, 50) as i64;
            let step = p.range(1, 30) as i64;
            let rep = p.range(2, 3) as usize;
            let d: Vec<i64> = (0..300).map(|i| d0 + step * (i / rep) as i64).collect();
            with_warm(p, d)
        }
        13 => {
            // two conditions near their thresholds at once: 269..273 multiples of 100
            // (or stuck probes) of which 1..3 also ran backwards
            let n_special = *p.pick(&[269usize, 270, 271, 272, 273]);
            let n_back = p.range(1, 3) as usize;
            let stuck_variant = p.chance(1, 3);
            let c = 100 * p.range(1, 50) as i64;
            let mut d: Vec<i64> = (0..300).map(|_| { let v = p.range(101, 90_000) as i64; if v % 100 == 0 { v + 1 } else { v } }).collect();
            let mut idx: Vec<usize> = (0..300).collect();
            for i in (1..300).rev() { idx.swap(i, p.below(i as u64 + 1) as usize); }
            if stuck_variant {
                // a constant run at the end (stuck by the first difference)
                for i in 300 - n_special..300 { d[i] = c + 1; }
                for k in 0..n_back { d[300 - 1 - 2 * k] = -(c + 1); }
            } else {
                for &i in idx.iter().take(n_special) { d[i] = 100 * p.range(1, 900) as i64; }
                for &i in idx.iter().take(n_back) { d[i] = -d[i]; }
            }
            with_warm(p, d)
        }
        _ => { let c = p.below(SCRIPT_CLASSES.len() as u64) as usize; gen_script(p, c, 1601) }
    }
}

/// a test_timer-shaped script of a random class (also used by C14 / C18)
pub fn c13_script(p: &mut Prng) -> Vec<u64> {
    let class = p.below(TT_CLASSES.len() as u64) as usize;
    c13_gen(p, class)
}

fn err_name(e: &Result<u8, TimerError>) -> String {
    match e {
        Ok(r) => format!("Ok({})", r),
        Err(e) => format!("Err({:?})", e),
    }
}

fn c13_check(readings: Vec<u64>, tail: u64, class: &str, sub: &str, id: u64, r: &mut Report) {
    let timer = ScriptedTimer::new(readings, tail);
    let mut g = JitterRng::new_with_timer(timer.closure());
    let res = g.test_timer();
    let consumed = timer.calls();
    let script = timer.0.clone();
    let facts = tt_facts(&|i| script.reading_at(i), PROBES);
    let mut panicked = false;
    if let Ok(rounds) = res {
        if rounds > 0 {
            // the documented idiom: set_rounds(test_timer()?)
            panicked = guarded(|| g.set_rounds(rounds)).is_err();
        }
    }
    r.eval();
    let verdict = tt_judge(&res, &facts, panicked);
    let detail = |why: &str| json!({
        "script_class": class, "result": err_name(&res), "why": why, "readings_consumed": consumed,
        "facts": format!("{:?}", facts), "timer": script_json(&timer, consumed)});
    match verdict {
        Err(why) => {
            let sig = match &res {
                Ok(0) => "test_timer:Ok(0)".to_string(),
                Ok(_) => format!("test_timer:Ok:{}", why.split(" with ").nth(1).map(|s| s.split(' ').skip(1).collect::<Vec<_>>().join("_")).unwrap_or_else(|| why.split(' ').take(3).collect::<Vec<_>>().join("_"))),
                Err(e) => format!("test_timer:Err({:?})_but_condition_does_not_hold", e),
            };
            // keep signatures free of numbers
            let sig: String = sig.chars().filter(|c| !c.is_ascii_digit() || sig.starts_with("test_timer:Ok(0)")).collect();
            r.violation(sig, sub, id, detail(&why));
            return;
        }
        Ok(kind) => r.cov(&format!("result:{}", kind)),
    }
    // number of readings consumed follows the probe protocol
    let expect = if let Some(i) = facts.zero_reading_probe.or(facts.zero_delta_probe) { 5 + 4 * i } else { 1601 };
    r.eval();
    if consumed != expect {
        r.violation("test_timer:readings_consumed".into(), sub, id, detail(&format!("expected {} readings", expect)));
        return;
    }
    if let Ok(rounds) = res {
        r.cov(&format!("ok_rounds:{}", rounds));
    }
    r.cov(&format!("tt_class:{}", class));
    r.distinct(hkey(&[&id, &class]));
    r.sample(json!({"script_class": class, "result": err_name(&res), "mean_variation": (facts.first_abs + facts.sum_var) / 300,
                    "backward": facts.backwards_measured, "mod100": facts.count_mod, "stuck": facts.count_stuck}));
}

/// test_timer on a generator that was USED before (an output collection, or an
/// earlier test_timer), against the same script on a fresh generator: the verdict is
/// a function of the call's own 400 probes. The earlier activity is aimed: its last
/// two deltas (a, b) are chosen so that b - a, a - b or b equals the delta of the first
/// measured probe (what a stuck-test history carried over would compare with), and the
/// test scripts sit on the thresholds, where one miscounted probe flips the verdict.
fn c13_used_case(sub: &str, id: u64, r: &mut Report) {
    let mut p = Prng::new(id);
    let class = *p.pick(&[4usize, 4, 4, 13, 3, 0, 12, 8]);
    let test = c13_gen(&mut p, class);
    if test.len() < 1601 { return; }
    let delta_of = |probe: usize| test[4 + 4 * probe].wrapping_sub(test[1 + 4 * probe]) as u32 as i32;
    let (d0, d100) = (delta_of(0), delta_of(WARM));
    let a = p.range(1000, 60_000) as i32;
    let aim = p.below(7);
    let mut b = match aim {
        0 | 1 => a.wrapping_add(d100),
        2 => a.wrapping_sub(d100),
        3 => d100,
        4 => a.wrapping_add(d0),
        5 => d0,
        _ => p.range(1000, 60_000) as i32,
    };
    let aimed = b > 0 && b != a;
    if !aimed { b = a + 1 + p.below(5000) as i32; }
    // earlier activity: one rounds=1 collection (priming delta a, accepted delta b) that
    // ends just before the test script starts; or two of them; or a whole earlier test_timer
    let prior_kind = p.below(4);
    let gap = p.range(5, 5000);
    let end = test[0].wrapping_sub(gap);
    let t1 = end.wrapping_sub(b as u64);
    let t0 = t1.wrapping_sub(a as u64);
    let coll = vec![t0, t0.wrapping_add(1), t1, t1.wrapping_add(1), t1.wrapping_add(2), end, end.wrapping_add(1)];
    let mut prior: Vec<u64> = Vec::new();
    let mut prior_ops: Vec<&str> = Vec::new();
    if prior_kind == 3 {
        // an earlier (passing, jittery) test_timer first
        let mut q = Prng::new(p.u64());
        let first = c13_gen(&mut q, 8);
        let shift = t0.wrapping_sub(*first.last().unwrap()).wrapping_sub(p.range(5, 500));
        prior.extend(first.iter().map(|v| v.wrapping_add(shift)));
        prior_ops.push("test_timer");
    }
    if prior_kind == 2 {
        let back = (a as u64 + b as u64 + 100) * 2;
        prior.extend(coll.iter().map(|v| v.wrapping_sub(back)));
        prior_ops.push("next_u64");
    }
    prior.extend(coll.iter());
    prior_ops.push(if prior_kind == 1 { "next_u32" } else { "next_u64" });
    let n_prior = prior.len();
    let mut full = prior;
    full.extend(test.iter());
    let tail = p.u64();
    // (a) fresh generator, the test script alone
    let fresh_timer = ScriptedTimer::new(test.clone(), tail);
    let res_fresh = JitterRng::new_with_timer(fresh_timer.closure()).test_timer();
    // (b) used generator
    let timer = ScriptedTimer::new(full, tail);
    let mut g = JitterRng::new_with_timer(timer.closure());
    g.set_rounds(1);
    for op in &prior_ops {
        match *op {
            "test_timer" => { let _ = g.test_timer(); g.set_rounds(1); }
            "next_u32" => { let _ = g.next_u32(); }
            _ => { let _ = g.next_u64(); }
        }
    }
    if timer.calls() != n_prior {
        // a measurement of the earlier activity was stuck (or the earlier test stopped early):
        // the script is no longer aligned with the test; not this monitor's subject
        r.cov("used:misaligned");
        return;
    }
    let res_used = g.test_timer();
    let consumed = timer.calls() - n_prior;
    let script = fresh_timer.0.clone();
    let facts = tt_facts(&|i| script.reading_at(i), PROBES);
    r.eval();
    let detail = |why: String| json!({
        "script_class": TT_CLASSES[class], "earlier_activity": prior_ops, "earlier_last_deltas": [a, b], "aim": aim,
        "first_probe_delta": d0, "first_measured_probe_delta": d100,
        "result_on_fresh_generator": err_name(&res_fresh), "result_on_used_generator": err_name(&res_used), "why": why,
        "facts": format!("{:?}", facts), "readings_consumed": consumed});
    if let Err(why) = tt_judge(&res_used, &facts, false) {
        r.violation("test_timer:on_used_generator:verdict_does_not_match_readings".into(), sub, id, detail(why));
        return;
    }
    r.eval();
    if err_name(&res_fresh) != err_name(&res_used) {
        r.violation("test_timer:verdict_depends_on_earlier_use".into(), sub, id, detail("same 400 probes, different verdicts".into()));
        return;
    }
    r.cov("used_generator");
    if aimed { r.cov("used_generator:aimed"); }
    r.cov(&format!("used_generator_result:{}", err_name(&res_used).split('(').next().unwrap_or("")));
    if facts.count_stuck == 270 { r.cov("used_generator:exactly_270_stuck"); }
    r.distinct(hkey(&[&"used", &id]));
}

fn c13_case(sub: &str, id: u64, explicit: Option<&Value>, r: &mut Report) {
    if sub == "used" && explicit.is_none() {
        return c13_used_case(sub, id, r);
    }
    if let Some(e) = explicit {
        if let Some((readings, tail, _, _)) = parse_explicit(e) {
            c13_check(readings, tail, "explicit", sub, id, r);
        } else {
            r.inconclusive("unparsable explicit case".into());
        }
        return;
    }
    let mut p = Prng::new(id);
    let class = p.below(TT_CLASSES.len() as u64) as usize;
    let readings = c13_gen(&mut p, class);
    c13_check(readings, p.u64(), TT_CLASSES[class], sub, id, r);
}

// ---- timers of a zero-sized type (fn items / non-capturing closures) reading a
// process-global script: what `JitterRng::new()` and the crate documentation use.
static ZST_SCRIPT: std::sync::Mutex<(Vec<u64>, usize)> = std::sync::Mutex::new((Vec::new(), 0));
fn zst_next() -> u64 {
    let mut g = ZST_SCRIPT.lock().unwrap();
    let i = g.1;
    g.1 += 1;
    if i < g.0.len() { g.0[i] } else { g.0.last().copied().unwrap_or(1).wrapping_add(1_000_003 * (i - g.0.len() + 1) as u64) }
}
fn zst_timer_a() -> u64 {
    zst_next()
}
fn zst_timer_b() -> u64 {
    zst_next()
}
fn zst_load(readings: Vec<u64>) {
    *ZST_SCRIPT.lock().unwrap() = (readings, 0);
}
fn zst_calls() -> usize {
    ZST_SCRIPT.lock().unwrap().1
}

/// C13 on zero-sized timer types, strictly sequential (one global script): a
/// passing timer first, then failing ones, alternating between two fn items and a
/// non-capturing closure — a verdict cached per type or per process would show
fn c13_zst_sequence(ctx: &Ctx, r: &mut Report) {
    let mut p = Prng::new(ctx.seed ^ 0x2571);
    let n = ((120.0 * ctx.scale.min(1.0)).ceil() as usize).max(3);
    for k in 0..n {
        let class = if k % 2 == 0 { 8 } else { *p.pick(&[2usize, 3, 4, 0, 9, 6]) };
        let mut q = Prng::new(p.u64());
        let readings = c13_gen(&mut q, class);
        zst_load(readings.clone());
        let res = match k % 3 {
            0 => JitterRng::new_with_timer(zst_timer_a).test_timer(),
            1 => JitterRng::new_with_timer(zst_timer_b).test_timer(),
            _ => JitterRng::new_with_timer(|| zst_next()).test_timer(),
        };
        let consumed = zst_calls();
        let facts = tt_facts(&|i| if i < readings.len() { readings[i] } else { readings.last().copied().unwrap_or(1).wrapping_add(1_000_003 * (i - readings.len() + 1) as u64) }, PROBES);
        r.eval();
        match tt_judge(&res, &facts, false) {
            Ok(kind) => r.cov(&format!("zst_result:{}", kind)),
            Err(why) => {
                r.violation("test_timer:zero_sized_timer_type:verdict_does_not_match_readings".into(), "zst", k as u64, json!({
                    "sequence_index": k, "script_class": TT_CLASSES[class], "result": err_name(&res), "why": why,
                    "readings_consumed": consumed, "facts": format!("{:?}", facts),
                    "note": "timers of a zero-sized type (fn item / non-capturing closure) run one after the other in one process"}));
                return;
            }
        }
        let expect = if let Some(i) = facts.zero_reading_probe.or(facts.zero_delta_probe) { 5 + 4 * i } else { 1601 };
        if consumed != expect {
            r.violation("test_timer:zero_sized_timer_type:readings_consumed".into(), "zst", k as u64, json!({"expected": expect, "observed": consumed, "result": err_name(&res)}));
            return;
        }
    }
    r.cov("zst_sequence_done");
    r.distinct(hkey(&[&"zst", &ctx.seed]));
}

pub fn run_c13(ctx: &Ctx, only: Option<&Only>) -> Report {
    if let Some(o) = only {
        if o.sub == "zst" {
            let mut r = Report::new();
            c13_zst_sequence(ctx, &mut r);
            return r;
        }
        let mut r = Report::new();
        let sub = o.sub.to_string();
        let ex = o.explicit.cloned();
        run_case(o.sub, o.id, &mut r, &|id, r: &mut Report| c13_case(&sub, id, ex.as_ref(), r));
        return r;
    }
    let secs = if ctx.tier_thorough { ctx.budget_s } else { 0.0 };
    let mut total = drive(ctx, "timer", 12_000, secs * 0.8, |id, r| c13_case("timer", id, None, r));
    total.merge(drive(ctx, "used", 6_000, secs * 0.2, |id, r| c13_case("used", id, None, r)));
    total.floor("used_generator", 1_000);
    total.floor("used_generator:aimed", 500);
    total.floor("used_generator:exactly_270_stuck", 50);
    run_case("zst", 0, &mut total, &|_, r: &mut Report| c13_zst_sequence(ctx, r));
    total.floor("zst_sequence_done", 1);
    total.floor("zst_result:Ok", 5);
    for k in ["Ok", "Err(NoTimer)", "Err(CoarseTimer)", "Err(NotMonotonic)", "Err(TinyVariations)", "Err(TooManyStuck)"] {
        total.floor(&format!("result:{}", k), 5);
    }
    for c in TT_CLASSES {
        total.floor(&format!("tt_class:{}", c), 10);
    }
    total
}

// ===========================================================================
// C15 — uses the cfg(rngs_verif) hooks

fn bv(v: u64) -> BitVec {
    BitVec { n: 64, w: vec![v] }
}

struct PoolRig {
    g: JitterRng<Box<dyn Fn() -> u64 + Send + Sync>>,
}
impl PoolRig {
    fn new() -> Self {
        PoolRig { g: JitterRng::new_with_timer(Box::new(|| 1)) }
    }
    /// one LFSR fold through the hook
    fn fold(&mut self, d: u64, t: u64) -> u64 {
        self.g.verif_set_pool(d);
        self.g.verif_lfsr(t);
        self.g.verif_pool()
    }
    fn stir(&mut self, d: u64) -> u64 {
        self.g.verif_set_pool(d);
        self.g.verif_stir();
        self.g.verif_pool()
    }
}

/// the same fold through the public API: timer_stats(false) with a constant timer
fn fold_via_timer_stats(d: u64, t: u64) -> u64 {
    let mut g = JitterRng::new_with_timer(move || t);
    g.verif_set_pool(d);
    let _ = g.timer_stats(false);
    g.verif_pool()
}

/// next_u64 as a function of the initial pool for a fixed script and rounds
fn collect_from(d: u64, readings: &[u64], tail: u64, rounds: u8) -> u64 {
    let timer = ScriptedTimer::new(readings.to_vec(), tail);
    let mut g = JitterRng::new_with_timer(timer.closure());
    g.set_rounds(rounds);
    g.verif_set_pool(d);
    g.next_u64()
}

fn affine_matrix(f: &mut dyn FnMut(u64) -> u64) -> (Mat, u64) {
    let c = f(0);
    let cols = (0..64).map(|i| bv(f(1u64 << i) ^ c)).collect();
    (Mat { n: 64, cols }, c)
}

/// kernel vector of a rank-deficient 64x64 matrix (non-zero v with M·v = 0)
fn kernel_vector(m: &Mat) -> Option<u64> {
    // Gaussian elimination on columns, tracking combinations
    let mut cols: Vec<(u64, u64)> = (0..64).map(|i| (m.cols[i].w[0], 1u64 << i)).collect();
    let mut used = vec![false; 64];
    for bit in 0..64 {
        if let Some(pi) = (0..64).find(|&i| !used[i] && (cols[i].0 >> bit) & 1 == 1) {
            used[pi] = true;
            let pv = cols[pi];
            for i in 0..64 {
                if i != pi && (cols[i].0 >> bit) & 1 == 1 {
                    cols[i].0 ^= pv.0;
                    cols[i].1 ^= pv.1;
                }
            }
        }
    }
    cols.iter().find(|c| c.0 == 0 && c.1 != 0).map(|c| c.1)
}

fn c15_structured_pool(p: &mut Prng) -> u64 {
    match p.below(6) {
        0 => p.u64(),
        1 => 1u64 << p.below(64),
        2 => !(1u64 << p.below(64)),
        3 => p.u64() & p.u64() & p.u64(),
        4 => p.u64() | p.u64() | p.u64(),
        _ => (p.u64() >> p.below(64)) << p.below(32),
    }
}

fn c15_case(sub: &str, id: u64, ctx: &Ctx, r: &mut Report) {
    let mut p = Prng::new(id);
    let mut rig = PoolRig::new();
    match sub {
        // affinity + rank of every pool-update step (one deterministic case)
        "rank" => {
            let mut alg_ok = true;
            // pool -> pool for several fixed times, time -> pool for several fixed pools
            let times = [0u64, 1, u64::MAX, p.u64(), p.u64() as u32 as u64, (p.u64() as i32 as i64) as u64];
            for (k, &t) in times.iter().enumerate() {
                let (a, c) = affine_matrix(&mut |d| rig.fold(d, t));
                let rank = a.rank();
                r.eval();
                r.cov(&format!("rank_fold_pool:{}", rank));
                if rank < 64 {
                    alg_ok = false;
                    let kv = kernel_vector(&a).unwrap_or(0);
                    let d = p.u64();
                    let (x, y) = (rig.fold(d, t), rig.fold(d ^ kv, t));
                    r.violation("JitterRng:lfsr_fold:not_injective_in_pool".into(), sub, id, json!({
                        "time": hx64(t), "rank": rank, "pool_a": hx64(d), "pool_b": hx64(d ^ kv),
                        "fold_a": hx64(x), "fold_b": hx64(y), "collision_confirmed_on_real_code": x == y && kv != 0}));
                }
                let _ = (k, c);
            }
            let pools = [0u64, u64::MAX, p.u64(), p.u64()];
            for &d in pools.iter() {
                let (b, _) = affine_matrix(&mut |t| rig.fold(d, t));
                let rank = b.rank();
                r.eval();
                r.cov(&format!("rank_fold_time:{}", rank));
                if rank < 64 {
                    alg_ok = false;
                    let kv = kernel_vector(&b).unwrap_or(0);
                    let t = p.u64();
                    let (x, y) = (rig.fold(d, t), rig.fold(d, t ^ kv));
                    r.violation("JitterRng:lfsr_fold:not_injective_in_time".into(), sub, id, json!({
                        "pool": hx64(d), "rank": rank, "time_a": hx64(t), "time_b": hx64(t ^ kv),
                        "fold_a": hx64(x), "fold_b": hx64(y), "collision_confirmed_on_real_code": x == y && kv != 0}));
                }
            }
            let (ms, _) = affine_matrix(&mut |d| rig.stir(d));
            let rank = ms.rank();
            r.eval();
            r.cov(&format!("rank_stir:{}", rank));
            if rank < 64 {
                alg_ok = false;
                let kv = kernel_vector(&ms).unwrap_or(0);
                let d = p.u64();
                let (x, y) = (rig.stir(d), rig.stir(d ^ kv));
                r.violation("JitterRng:stir:not_injective".into(), sub, id, json!({
                    "rank": rank, "pool_a": hx64(d), "pool_b": hx64(d ^ kv), "stir_a": hx64(x), "stir_b": hx64(y),
                    "collision_confirmed_on_real_code": x == y && kv != 0}));
            }
            // whole collection (contains the rotate-by-7) as a function of the initial pool
            for rounds in [1u8, 2, 5] {
                let readings = gen_script(&mut p, 0, 64 * (rounds as usize + 2));
                let tail = p.u64();
                let (mg, _) = affine_matrix(&mut |d| collect_from(d, &readings, tail, rounds));
                let rank = mg.rank();
                r.eval();
                r.cov(&format!("rank_collect:{}", rank));
                if rank < 64 {
                    alg_ok = false;
                    let kv = kernel_vector(&mg).unwrap_or(0);
                    let d = p.u64();
                    let (x, y) = (collect_from(d, &readings, tail, rounds), collect_from(d ^ kv, &readings, tail, rounds));
                    r.violation("JitterRng:collection:merges_pools".into(), sub, id, json!({
                        "rounds": rounds, "rank": rank, "pool_a": hx64(d), "pool_b": hx64(d ^ kv),
                        "next_u64_a": hx64(x), "next_u64_b": hx64(y), "collision_confirmed_on_real_code": x == y && kv != 0}));
                }
            }
            if alg_ok {
                r.cov("rank_all_full");
            }
            r.distinct(hkey(&[&"rank", &id]));
        }
        // random executions must agree with the affine prediction read off the basis
        "affinity" => {
            let t0 = p.u64();
            let (a, c0) = affine_matrix(&mut |d| rig.fold(d, t0));
            let d0 = p.u64();
            let (b, c1) = affine_matrix(&mut |t| rig.fold(d0, t));
            let (ms, cs) = affine_matrix(&mut |d| rig.stir(d));
            let mut ok = true;
            for _ in 0..2000 {
                let d = c15_structured_pool(&mut p);
                let t = c15_structured_pool(&mut p);
                // F(d,t0) = A·d ^ c0
                r.eval();
                if rig.fold(d, t0) != a.apply(&bv(d)).w[0] ^ c0 { ok = false; }
                r.eval();
                if rig.fold(d0, t) != b.apply(&bv(t)).w[0] ^ c1 { ok = false; }
                // joint: F(d,t) = F(d,0) ^ F(0,t) ^ F(0,0)
                r.eval();
                if rig.fold(d, t) != rig.fold(d, 0) ^ rig.fold(0, t) ^ rig.fold(0, 0) { ok = false; }
                r.eval();
                if rig.stir(d) != ms.apply(&bv(d)).w[0] ^ cs { ok = false; }
                // public route agrees with the hook route, and with the model
                if p.chance(1, 8) {
                    r.eval();
                    if fold_via_timer_stats(d, t) != rig.fold(d, t) {
                        r.violation("JitterRng:timer_stats_fold!=lfsr_fold".into(), sub, id, json!({"pool": hx64(d), "time": hx64(t)}));
                        return;
                    }
                    r.eval();
                    if rig.fold(d, t) != jitter::fold(d, t) || rig.stir(d) != jitter::stir(d) {
                        r.violation("JitterRng:pool_step!=documented_procedure".into(), sub, id, json!({
                            "pool": hx64(d), "time": hx64(t), "fold_real": hx64(rig.fold(d, t)), "fold_model": hx64(jitter::fold(d, t)),
                            "stir_real": hx64(rig.stir(d)), "stir_model": hx64(jitter::stir(d))}));
                        return;
                    }
                }
                if !ok {
                    r.data.insert("non_affine_witness".into(), json!({"pool": hx64(d), "time": hx64(t)}));
                    r.inconclusive("a pool-update step is not affine over GF(2) on an observed execution: the rank oracle does not apply (the direct collision monitors still decide)".into());
                    return;
                }
            }
            r.covn("affinity_observations", 8000);
            r.distinct(hkey(&[&"affinity", &id]));
        }
        // direct collision monitor: distinct inputs must not collide
        "collide" => {
            let n = if ctx.scale < 1.0 { 3_000 } else { ctx.n(1 << 16, 1 << 20) as usize };
            let which = p.below(3);
            let fixed = c15_structured_pool(&mut p);
            let base = p.u64();
            let mut seen: std::collections::HashMap<u64, u64> = std::collections::HashMap::with_capacity(n);
            for k in 0..n {
                // half: a dense low-Hamming-distance neighbourhood of `base`
                // (all values base ^ (k scattered over 20 bit positions)); half: random
                let x = if k % 2 == 0 {
                    let kk = (k / 2) as u64;
                    let mut v = base;
                    for b in 0..20 {
                        if (kk >> b) & 1 == 1 {
                            v ^= 1u64 << ((b * 3 + (id % 5) as usize) % 64);
                        }
                    }
                    v
                } else {
                    p.u64()
                };
                let y = match which {
                    0 => rig.fold(x, fixed),
                    1 => rig.fold(fixed, x),
                    _ => rig.stir(x),
                };
                r.eval();
                if let Some(&prev) = seen.get(&y) {
                    if prev != x {
                        let name = ["lfsr_fold:not_injective_in_pool", "lfsr_fold:not_injective_in_time", "stir:not_injective"][which as usize];
                        r.violation(format!("JitterRng:{}", name), sub, id, json!({
                            "fixed_argument": hx64(fixed), "input_a": hx64(prev), "input_b": hx64(x), "common_result": hx64(y)}));
                        return;
                    }
                }
                seen.insert(y, x);
            }
            r.covn(&format!("collide_inputs:{}", ["fold_pool", "fold_time", "stir"][which as usize]), seen.len() as u64);
            r.distinct(hkey(&[&"collide", &id]));
            let map_name = ["fold(.,t)", "fold(d,.)", "stir"][which as usize];
            r.sample(json!({"monitor": "collision", "map": map_name, "fixed_argument": hx64(fixed), "distinct_inputs": seen.len(), "collisions": 0}));
        }
        // rotation by 7 is a permutation: observed through accepted vs stuck
        // measurements is indirect; observe collections with equal scripts and
        // distinct pools — outputs must differ (sampled form of "never merged")
        "collect_pairs" => {
            let rounds = *p.pick(&[1u8, 2, 3, 8]);
            let cls = *p.pick(&[0usize, 1, 2, 8, 9]);
            let readings = gen_script(&mut p, cls, 32 * (rounds as usize + 2));
            let tail = p.u64();
            let d = c15_structured_pool(&mut p);
            for _ in 0..16 {
                let mut e = d ^ (1u64 << p.below(64));
                if p.chance(1, 2) { e ^= 1u64 << p.below(64); }
                if e == d { continue; }
                let (x, y) = (collect_from(d, &readings, tail, rounds), collect_from(e, &readings, tail, rounds));
                r.eval();
                if x == y {
                    r.violation("JitterRng:collection:merges_pools".into(), sub, id, json!({
                        "rounds": rounds, "pool_a": hx64(d), "pool_b": hx64(e), "next_u64": hx64(x)}));
                    return;
                }
            }
            r.cov("collect_pairs");
            r.distinct(hkey(&[&"collect_pairs", &id]));
        }
        // clone() / clone_from() carry the WHOLE pool over, whatever the half state of the
        // source or of the destination: two generators whose pools differ (also only in one
        // half) have clones whose next collections differ, and the clone's pool (hook)
        // equals the source's
        "clone_pairs" => {
            let rounds = *p.pick(&[1u8, 2, 3]);
            let readings = gen_script(&mut p, 0, 64 * (rounds as usize + 2));
            let tail = p.u64();
            let d = c15_structured_pool(&mut p);
            // difference confined to one half, or anywhere
            let diff = match p.below(4) { 0 => (p.u64() | 1) << 32, 1 => (p.u64() >> 32) | 1, 2 => 1u64 << p.below(64), _ => p.u64() | 1 };
            let e = d ^ diff;
            let pending_src = p.chance(2, 3);
            let via_clone_from = p.chance(1, 2);
            let pending_dst = p.chance(1, 2);
            let run = |pool: u64| -> (u64, u64, u64) {
                let timer = ScriptedTimer::new(readings.clone(), tail);
                let mut g = JitterRng::new_with_timer(timer.closure());
                g.set_rounds(rounds);
                if pending_src { let _ = g.next_u32(); }
                g.verif_set_pool(pool);
                let c = if via_clone_from {
                    let mut dst = JitterRng::new_with_timer(timer.closure());
                    dst.set_rounds(rounds);
                    if pending_dst { let _ = dst.next_u32(); }
                    dst.clone_from(&g);
                    dst
                } else {
                    g.clone()
                };
                let mut c = c;
                let cp = c.verif_pool();
                timer.set_pos(40 * (rounds as usize + 2)); // both runs read the same stretch of the script
                (cp, c.next_u64(), g.verif_pool())
            };
            let (cp_d, out_d, src_d) = run(d);
            let (cp_e, out_e, _) = run(e);
            r.eval();
            if cp_d != d || src_d != d {
                r.violation("JitterRng:clone:pool_not_carried_over".into(), sub, id, json!({
                    "source_pool": hx64(d), "clone_pool": hx64(cp_d), "source_pool_after": hx64(src_d),
                    "source_had_pending_half": pending_src, "via_clone_from": via_clone_from, "destination_had_pending_half": pending_dst}));
                return;
            }
            r.eval();
            if out_d == out_e || cp_d == cp_e {
                r.violation("JitterRng:clone:merges_pools".into(), sub, id, json!({
                    "pool_a": hx64(d), "pool_b": hx64(e), "clone_pool_a": hx64(cp_d), "clone_pool_b": hx64(cp_e), "next_u64_of_both_clones": hx64(out_d),
                    "source_had_pending_half": pending_src, "via_clone_from": via_clone_from}));
                return;
            }
            r.cov("clone_pairs");
            if pending_src { r.cov("clone_pairs:source_half_pending"); }
            r.distinct(hkey(&[&"clone_pairs", &id]));
        }
        // "entropy already collected is never lost by further collection": the pool
        // after ANY operation sequence (next_u32 / next_u64 / fill_bytes /
        // timer_stats / test_timer, stalls included) is a one-to-one function of
        // the pool before it. Affine map read off 64 basis pools, rank, and a
        // colliding pair re-run on the real code if the rank is deficient.
        "op_sequences" => {
            let class = { let c = p.below(12) as usize; if c == 10 { 12 } else { c } };
            let rounds = *p.pick(&[1u8, 1, 2, 3]);
            let n_ops = p.range(1, 6) as usize;
            let ops: Vec<JOp> = (0..n_ops).map(|_| match p.below(10) {
                0..=2 => JOp::U32,
                3..=4 => JOp::U64,
                5 => JOp::Fill(p.below(14) as usize),
                6 => JOp::Stats(p.chance(1, 2)),
                // (test_timer costs about a minute per call under an interpreter)
                7 if ctx.scale >= 1.0 => JOp::TestTimer,
                // a timer panic inside the next call, recovered by the caller
                8 => JOp::FaultInNext(p.below(10) as usize),
                _ => JOp::U32,
            }).collect();
            let need = 400 + ops.iter().map(|o| if *o == JOp::TestTimer { 1700 } else { 60 }).sum::<usize>();
            let readings = gen_script(&mut p, class, need);
            let tail = p.u64();
            let run = |d: u64| -> u64 {
                let timer = ScriptedTimer::new(readings.clone(), tail);
                let mut g = JitterRng::new_with_timer(timer.closure());
                g.set_rounds(rounds);
                g.verif_set_pool(d);
                for op in &ops {
                    if let JOp::FaultInNext(k) = op {
                        timer.inject_fault_after(*k);
                        continue;
                    }
                    // (a fault armed for this call is caught here, as a caller would)
                    let _ = guarded(|| real_apply(&mut g, op));
                    timer.clear_fault();
                }
                // one more collection, so that a reset deferred to "the next collection after
                // an aborted one" shows in the pool
                timer.clear_fault();
                let _ = g.next_u64();
                g.verif_pool()
            };
            let mut f = |d: u64| run(d);
            let (m, c) = affine_matrix(&mut f);
            // affinity on random pools (otherwise the rank says nothing)
            for _ in 0..24 {
                let d = c15_structured_pool(&mut p);
                r.eval();
                if run(d) != m.apply(&bv(d)).w[0] ^ c {
                    r.data.insert("non_affine_witness".into(), json!({"pool": hx64(d), "ops": show_jops(&ops)}));
                    r.inconclusive("pool after an operation sequence is not an affine function of the pool before it on an observed execution (rank oracle not applicable)".into());
                    return;
                }
            }
            let rank = m.rank();
            r.eval();
            if rank < 64 {
                let kv = kernel_vector(&m).unwrap_or(0);
                let d = p.u64();
                let (x, y) = (run(d), run(d ^ kv));
                r.violation("JitterRng:operation_sequence_merges_pools".into(), sub, id, json!({
                    "ops": show_jops(&ops), "rounds": rounds, "script_class": SCRIPT_CLASSES[class], "rank": rank,
                    "pool_a": hx64(d), "pool_b": hx64(d ^ kv), "pool_after_a": hx64(x), "pool_after_b": hx64(y),
                    "collision_confirmed_on_real_code": x == y && kv != 0}));
                return;
            }
            r.cov("op_sequences_rank64");
            r.cov(&format!("op_sequences_class:{}", SCRIPT_CLASSES[class]));
            r.distinct(hkey(&[&"op_sequences", &id, &show_jops(&ops)]));
        }
        _ => r.inconclusive(format!("unknown sub-monitor {} for C15", sub)),
    }
}

pub fn run_c15(ctx: &Ctx, only: Option<&Only>) -> Report {
    if let Some(o) = only {
        let mut r = Report::new();
        let sub = o.sub.to_string();
        run_case(o.sub, o.id, &mut r, &|id, r: &mut Report| c15_case(&sub, id, ctx, r));
        return r;
    }
    let secs = if ctx.tier_thorough { ctx.budget_s } else { 0.0 };
    let mut total = drive(ctx, "rank", 16, 0.0, |id, r| c15_case("rank", id, ctx, r));
    total.merge(drive(ctx, "affinity", 128, secs * 0.3, |id, r| c15_case("affinity", id, ctx, r)));
    total.merge(drive(ctx, "collide", 64, secs * 0.5, |id, r| c15_case("collide", id, ctx, r)));
    total.merge(drive(ctx, "collect_pairs", 2_000, secs * 0.1, |id, r| c15_case("collect_pairs", id, ctx, r)));
    total.merge(drive(ctx, "op_sequences", 1_200, secs * 0.1, |id, r| c15_case("op_sequences", id, ctx, r)));
    total.merge(drive(ctx, "clone_pairs", 2_000, 0.0, |id, r| c15_case("clone_pairs", id, ctx, r)));
    total.floor("clone_pairs:source_half_pending", 500);
    total.floor("rank_all_full", 1);
    total.floor("op_sequences_rank64", 500);
    total.floor("affinity_observations", 100_000);
    for m in ["fold_pool", "fold_time", "stir"] {
        total.floor(&format!("collide_inputs:{}", m), 1 << 16);
    }
    if ctx.scale < 1.0 {
        total.note("reduced run: 3000-input collision batches, no test_timer in op_sequences".into());
    }
    total.note("inference: every pool-update step agreed with the affine map read off its 64 basis inputs on all affinity_observations; rank 64 of those maps then means one-to-one on every input consistent with the observations".into());
    total
}

// ===========================================================================
// C16 — ledger over an original and its clones on one shared timer

fn c16_case(sub: &str, id: u64, r: &mut Report) {
    let mut p = Prng::new(id);
    let rounds = *p.pick(&[1u8, 1, 2, 3, 3, 64, 255]);
    let n_ops = if rounds >= 64 { p.range(3, 6) } else { p.range(4, 28) } as usize;
    let class = *p.pick(&[0usize, 0, 0, 6, 9, 4]);
    let mut readings = gen_script(&mut p, class, 400);
    // one history in six starts with a collection SOLVED to give a word with a special
    // half (zero upper half: "nothing pending" encodings that reuse the value 0)
    if rounds < 64 && p.chance(1, 6) {
        let t = *p.pick(&[Target::Upper(0), Target::Upper(0), Target::Lower(0), Target::EqualHalves, Target::Exact(0), Target::Upper(u32::MAX)]);
        let t = if rounds < 2 && matches!(t, Target::Exact(_)) { Target::Upper(0) } else { t };
        let start0 = 1_000_000 + p.below(1 << 30);
        if let Some(s) = solve_collection(&mut p, 0, rounds, start0, t) {
            readings = s;
            r.cov(&format!("solved_first_word:{}", t.name()));
        }
    }
    let timer = ScriptedTimer::new(readings, p.u64());
    let mut cur = timer.model_cursor();
    let mk = JitterRng::new_with_timer(timer.closure());
    let mut reals = vec![mk];
    let mut models = vec![Jitter::new()];
    reals[0].set_rounds(rounds);
    models[0].rounds = rounds;
    // ledger of (collection number, part) handed out; part 0 = low, 1 = high, 2 = full/bytes
    let mut ledger: std::collections::HashSet<(u32, u8)> = std::collections::HashSet::new();
    let mut collections = 0u32;
    // per instance: collection whose high half is pending, as the checker sees it
    let mut pending: Vec<Option<u32>> = vec![None];
    let mut log: Vec<String> = Vec::new();
    let mut st = CollectStats::default();
    let min_reads = |rounds: u8| 1 + 3 * (1 + rounds as usize);
    let mut values: Vec<u64> = Vec::new(); // V_j
    // model-free: the 64-bit value the instance held right after its last fresh
    // next_u32 (read through the hook), whose high half is still owed
    let mut owed: Vec<Option<u64>> = vec![None];

    for i in 0..n_ops {
        let k = p.below(reals.len() as u64) as usize;
        let roll = p.below(28);
        let op = match roll % 14 {
            0..=4 => JOp::U32,
            5..=6 => JOp::U64,
            7..=9 => JOp::Fill(p.below(18) as usize),
            10 => if reals.len() < 3 { JOp::Clone } else { JOp::U32 },
            11 => if reals.len() >= 2 { JOp::CloneFrom((k + 1 + p.below(reals.len() as u64 - 1) as usize) % reals.len()) } else { JOp::Clone },
            12 => if rounds < 64 && roll < 14 { JOp::TestTimer } else { JOp::U32 },
            _ => JOp::U32,
        };
        // fault injection: the timer panics at a chosen reading inside this call;
        // the caller recovers (catch_unwind) and keeps using the generator
        let inject = roll == 27 || roll == 13;
        if op == JOp::TestTimer {
            log.push(format!("#{}:test_timer", k));
            let got = real_apply(&mut reals[k], &op);
            models[k].test_timer_effect(&mut cur);
            if let JOut::I64(rr) = got { if rr > 0 { models[k].rounds = rr as u8; r.cov("test_timer_passed"); } }
            r.eval();
            if timer.calls() != cur.pos || reals[k].verif_pool() != models[k].pool {
                r.violation("JitterRng:test_timer:readings_or_pool".into(), sub, id, json!({"history": log.join(" "),
                    "expected_total_reads": cur.pos, "observed_total_reads": timer.calls(),
                    "expected_pool": hx64(models[k].pool), "observed_pool": hx64(reals[k].verif_pool())}));
                return;
            }
            // test_timer is not an output call: a pending half stays pending, but the
            // register it lives in was folded into (same modelling note as timer_stats)
            if pending[k].is_some() { owed[k] = Some(reals[k].verif_pool()); }
            r.cov("op:test_timer");
            continue;
        }
        if inject && matches!(op, JOp::U32 | JOp::U64 | JOp::Fill(_)) {
            let at = p.below(3 * (1 + models[k].rounds as u64).min(12)) as usize;
            log.push(format!("#{}:{}!fault@+{}", k, op.show(), at));
            timer.inject_fault_after(at);
            let res = guarded(|| real_apply(&mut reals[k], &op));
            let faulted = !timer.fault_pending();
            timer.clear_fault();
            match res {
                Err(c) if c.message.contains(TIMER_FAULT_MSG) => {
                    // the aborted call handed nothing out: nothing is pending afterwards,
                    // the next output must come from a fresh collection. Re-synchronise the
                    // model with the (partially mixed) pool through the hook.
                    models[k].pool = reals[k].verif_pool();
                    models[k].half_pending = false;
                    pending[k] = None;
                    owed[k] = None;
                    cur.pos = timer.calls();
                    r.cov("timer_fault_recovered");
                    continue;
                }
                Err(c) => {
                    r.violation(format!("JitterRng:{}", c.signature()), sub, id, json!({"history": log.join(" ")}));
                    return;
                }
                Ok(_) if !faulted => {
                    // the call never reached the faulty reading (e.g. it served a pending
                    // half or needed no collection): replay it on the model as a normal op
                    log.pop();
                    // fall through is not possible after the call was made: account for it
                    let want = model_apply(&mut models[k], &op, &mut cur, &mut st);
                    let _ = want;
                    // conservative resync of the checker's bookkeeping
                    models[k].pool = reals[k].verif_pool();
                    models[k].half_pending = reals[k].verif_half_pending();
                    pending[k] = if models[k].half_pending { Some(collections) } else { None };
                    owed[k] = if models[k].half_pending { Some(reals[k].verif_pool()) } else { None };
                    cur.pos = timer.calls();
                    continue;
                }
                Ok(_) => {
                    r.inconclusive("fault injection: timer reported a fault but the call returned normally".into());
                    return;
                }
            }
        }
        log.push(format!("#{}:{}", k, op.show()));
        if op == JOp::Clone {
            let c = reals[k].clone();
            reals.push(c);
            models.push(models[k].clone_model());
            pending.push(None);
            owed.push(None);
            r.cov("op:clone");
            if pending[k].is_some() {
                r.cov("clone_while_half_pending");
            }
            continue;
        }
        if let JOp::CloneFrom(src) = op {
            // Clone::clone_from is part of Clone: the destination becomes a clone
            // of the source, so whatever half either of them held, its first
            // output afterwards must come from a fresh collection
            let (dst_had, src_has) = (pending[k].is_some(), pending[src].is_some());
            if src < k {
                let (a, b) = reals.split_at_mut(k);
                b[0].clone_from(&a[src]);
            } else {
                let (a, b) = reals.split_at_mut(src);
                a[k].clone_from(&b[0]);
            }
            models[k] = models[src].clone_model();
            pending[k] = None;
            owed[k] = None;
            r.cov("op:clone_from");
            if dst_had { r.cov("clone_from_into_instance_with_pending_half"); }
            if src_has { r.cov("clone_from_source_with_pending_half"); }
            continue;
        }
        let calls_before = timer.calls();
        let meas_before = st.measurements;
        let want = model_apply(&mut models[k], &op, &mut cur, &mut st);
        let got = real_apply(&mut reals[k], &op);
        let reads = timer.calls() - calls_before;
        let detail = |why: &str| json!({"why": why, "rounds": rounds, "script_class": SCRIPT_CLASSES[class], "history": log.join(" "),
            "op_index": i, "instance": k, "op": op.show(), "expected": want.show(), "observed": got.show(),
            "timer_reads_in_call": reads, "expected_total_reads": cur.pos, "timer": script_json(&timer, cur.pos)});
        r.eval();
        // --- structural rules that need no value model -----------------------
        // expand the call into its next_u64 / next_u32 components (C05 composition)
        let comps: Vec<JOp> = match &op {
            JOp::Fill(n) => {
                let mut v = vec![JOp::U64; n / 8];
                if n % 8 > 4 { v.push(JOp::U64) } else if n % 8 > 0 { v.push(JOp::U32) }
                v
            }
            o => vec![o.clone()],
        };
        let mut need_reads = 0usize;
        let mut served_pending = false;
        for c in &comps {
            match c {
                JOp::U64 => {
                    pending[k] = None;
                    need_reads += min_reads(rounds);
                    values.push(0);
                    if !ledger.insert((collections, 2)) { unreachable!() }
                    collections += 1;
                }
                JOp::U32 => {
                    if let Some(j) = pending[k].take() {
                        served_pending = true;
                        if !ledger.insert((j, 1)) {
                            r.violation("JitterRng:ledger:high_half_handed_out_twice".into(), sub, id, detail("high half served twice"));
                            return;
                        }
                    } else {
                        need_reads += min_reads(rounds);
                        values.push(0);
                        ledger.insert((collections, 0));
                        pending[k] = Some(collections);
                        collections += 1;
                    }
                }
                _ => {}
            }
        }
        if reads < need_reads {
            r.violation("JitterRng:fresh_collection_reads_too_few_timer_values".into(), sub, id,
                detail(&format!("call must start {} fresh collection(s): at least {} readings", comps.len(), need_reads)));
            return;
        }
        if need_reads == 0 && reads != 0 {
            r.violation("JitterRng:pending_half_read_the_timer".into(), sub, id, detail("serving a pending half must not read the timer"));
            return;
        }
        // --- model-free check through the hook: a next_u32 (plain, or as the
        // tail of fill_bytes(1..=4)) returns the low half of the freshly collected
        // pool value, the immediately following one its high half
        {
            let owed_before = owed[k].take();
            let pool = reals[k].verif_pool();
            let half_bytes: Option<Vec<u8>> = match (&op, &got) {
                (JOp::U32, JOut::U32(v)) => Some(v.to_le_bytes().to_vec()),
                (JOp::Fill(n), JOut::Bytes(b)) if *n >= 1 && *n <= 4 => Some(b.clone()),
                _ => None,
            };
            if let Some(hb) = half_bytes {
                r.eval();
                if served_pending {
                    let ok = match owed_before {
                        Some(v) => ((v >> 32) as u32).to_le_bytes()[..hb.len()] == hb[..] && pool == v,
                        None => false,
                    };
                    if !ok {
                        r.violation("JitterRng:pending_half_value".into(), sub, id, detail("second next_u32 is not the high half of the value collected by the first"));
                        return;
                    }
                } else if (pool as u32).to_le_bytes()[..hb.len()] != hb[..] {
                    r.violation("JitterRng:fresh_value".into(), sub, id, detail("next_u32 is not the low half of the freshly collected value"));
                    return;
                }
            }
            if pending[k].is_some() {
                owed[k] = Some(pool);
            }
        }
        // --- values and exact reading counts against the documented procedure
        if got != want {
            let sig = if served_pending { "JitterRng:pending_half_value" } else { "JitterRng:fresh_value" };
            r.violation(sig.into(), sub, id, detail("value differs from the documented procedure on the same readings"));
            return;
        }
        if timer.calls() != cur.pos {
            r.violation("JitterRng:timer_readings".into(), sub, id, detail("number of readings differs from the documented procedure"));
            return;
        }
        r.cov(&format!("op:{}", op.show().split('(').next().unwrap()));
        if served_pending {
            r.cov("pending_half_served");
            if matches!(op, JOp::Fill(_)) {
                r.cov("pending_half_served_via_fill_bytes");
            }
        }
        if st.measurements > meas_before && k > 0 {
            r.cov("fresh_collection_on_clone");
        }
    }
    // all low/high/full values handed out are attributable to distinct (collection, part)
    r.eval();
    r.cov(&format!("rounds:{}", rounds));
    r.cov(&format!("instances:{}", reals.len()));
    r.covn("collections", collections as u64);
    r.distinct(hkey(&[&id, &log.join(" ")]));
    r.sample(json!({"rounds": rounds, "history": log.join(" "), "collections": collections, "ledger_entries": ledger.len()}));
    let _ = values;
}

/// `JitterRng` must not be duplicable behind Clone's back: if the type is `Copy`
/// for a `Copy` timer (fn items, fn pointers — what the documentation uses), a
/// plain copy keeps the pending half. Probed at run time; if the probe says Copy
/// the duplicate is made bit-wise (what a copy is) and judged by C16's rule.
fn c16_copy_probe(r: &mut Report) {
    use super::c19::{Probe, ProbeCopyFallback};
    let is_copy = Probe::<JitterRng<fn() -> u64>>::IS_COPY;
    r.eval();
    r.cov(&format!("jitter_is_copy:{}", is_copy));
    if !is_copy {
        return;
    }
    let readings = gen_script(&mut Prng::new(7), 0, 400);
    zst_load(readings);
    let f: fn() -> u64 = zst_timer_a;
    let mut g = JitterRng::new_with_timer(f);
    g.set_rounds(2);
    let _low = g.next_u32();
    let mut dup: JitterRng<fn() -> u64> = unsafe { std::ptr::read(&g) }; // = `let dup = g;` for a Copy type
    let before = zst_calls();
    let first = dup.next_u32();
    let reads = zst_calls() - before;
    let orig_high = g.next_u32();
    if reads == 0 || first == orig_high {
        r.violation("JitterRng:is_Copy:copy_returns_the_half_its_original_still_holds".into(), "copy_probe", 0, json!({
            "timer_reads_in_first_output_of_the_copy": reads, "copy_first_output": hx32(first), "original_next_output": hx32(orig_high),
            "note": "JitterRng<fn() -> u64> implements Copy: an implicit copy bypasses Clone::clone and duplicates the pending half"}));
    }
}

pub fn run_c16(ctx: &Ctx, only: Option<&Only>) -> Report {
    if let Some(o) = only {
        if o.sub == "copy_probe" {
            let mut r = Report::new();
            c16_copy_probe(&mut r);
            return r;
        }
        let mut r = Report::new();
        let sub = o.sub.to_string();
        run_case(o.sub, o.id, &mut r, &|id, r: &mut Report| c16_case(&sub, id, r));
        return r;
    }
    let secs = if ctx.tier_thorough { ctx.budget_s } else { 0.0 };
    let mut total = drive(ctx, "ledger", 24_000, secs, |id, r| c16_case("ledger", id, r));
    run_case("copy_probe", 0, &mut total, &|_, r: &mut Report| c16_copy_probe(r));
    for k in ["op:test_timer", "test_timer_passed", "timer_fault_recovered", "op:u32", "op:u64", "op:fill", "op:clone", "op:clone_from", "clone_from_into_instance_with_pending_half", "clone_from_source_with_pending_half",
              "pending_half_served", "clone_while_half_pending", "fresh_collection_on_clone"] {
        total.floor(k, 100);
    }
    for rr in [1, 2, 3, 64, 255] {
        total.floor(&format!("rounds:{}", rr), 10);
    }
    total.floor("instances:3", 100);
    total.floor("solved_first_word:upper_zero", 100);
    total
}
