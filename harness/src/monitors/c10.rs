//! C10: clone() and == are congruences. Pair monitor: for every pair, evaluate
//! == both ways, run one continuation on both, compare every value, re-evaluate.
//! Rules: clone => equal and identical futures; equal => identical futures and
//! still equal; futures differ => must have compared unequal.

use super::c05::{apply, Out};
use super::{drive, run_case, Only};
use crate::drive::*;
use crate::specs::*;
use crate::util::*;
use crate::with_spec;
use rand_core::block::BlockRngCore;
use rand_core::SeedableRng;
use serde_json::json;

pub fn apply_ext<S: Spec>(g: &mut S::R, op: &Op) -> Out {
    match op {
        Op::Jump => {
            S::jump(g);
            Out::U32(0)
        }
        Op::LongJump => {
            S::long_jump(g);
            Out::U32(0)
        }
        _ => apply(g, op),
    }
}

pub fn gen_history<S: Spec>(p: &mut Prng, n: usize) -> Vec<Op> {
    let bb = S::FAMILY.block_words() * (S::FAMILY.native_bits() / 8) as usize;
    (0..n)
        .map(|_| {
            if S::HAS_JUMP && p.chance(1, 12) {
                if p.chance(1, 2) { Op::Jump } else { Op::LongJump }
            } else {
                { let l = p.below(bb as u64 + 1) as usize; gen_out_op(p, l, bb) }
            }
        })
        .collect()
}

/// continuation long enough to cross three buffer refills
fn gen_continuation<S: Spec>(p: &mut Prng) -> Vec<Op> {
    let n = p.range(6, 30) as usize;
    let mut ops = gen_history::<S>(p, n);
    let bw = S::FAMILY.block_words();
    if bw > 1 {
        let wb = (S::FAMILY.native_bits() / 8) as usize;
        ops.push(Op::Fill(3 * bw * wb + p.below(9) as usize));
        ops.push(Op::U32);
        ops.push(Op::U64);
    }
    ops
}

struct PairResult {
    eq_before: Option<(bool, bool)>,
    ne_before: Option<bool>,
    diverged_at: Option<(usize, String, String)>,
    eq_after: Option<bool>,
}

fn run_pair<S: Spec>(a: &mut S::R, b: &mut S::R, cont: &[Op], r: &mut Report) -> PairResult {
    let eq_before = S::eq(a, b).map(|x| (x, S::eq(b, a).unwrap()));
    let ne_before = S::ne(a, b);
    let mut diverged_at = None;
    for (i, op) in cont.iter().enumerate() {
        let (x, y) = (apply_ext::<S>(a, op), apply_ext::<S>(b, op));
        r.eval();
        if x != y {
            diverged_at = Some((i, x.show(), y.show()));
            break;
        }
    }
    let eq_after = if diverged_at.is_none() { S::eq(a, b) } else { None };
    PairResult { eq_before, ne_before, diverged_at, eq_after }
}

fn judge<S: Spec>(kind: &str, is_clone: bool, res: &PairResult, desc: serde_json::Value, sub: &str, id: u64, r: &mut Report) {
    let mut d = desc;
    d["type"] = json!(S::NAME);
    d["pair_kind"] = json!(kind);
    d["eq_before"] = json!(format!("{:?}", res.eq_before));
    d["diverged_at"] = json!(format!("{:?}", res.diverged_at));
    if let Some((ab, ba)) = res.eq_before {
        if res.ne_before == Some(ab) {
            r.violation(format!("{}:ne_is_not_the_negation_of_eq", S::NAME), sub, id, d);
            return;
        }
        if ab != ba {
            r.violation(format!("{}:eq_not_symmetric", S::NAME), sub, id, d);
            return;
        }
        if is_clone && !ab {
            r.violation(format!("{}:clone_not_equal", S::NAME), sub, id, d);
            return;
        }
        if ab && res.diverged_at.is_some() {
            r.violation(format!("{}:equal_but_futures_differ", S::NAME), sub, id, d);
            return;
        }
        if ab && res.eq_after == Some(false) {
            r.violation(format!("{}:equal_then_unequal_after_same_ops", S::NAME), sub, id, d);
            return;
        }
        r.cov(&format!("{}:{}:eq={}", S::NAME, kind, ab));
    }
    if is_clone && res.diverged_at.is_some() {
        r.violation(format!("{}:clone_diverges", S::NAME), sub, id, d);
        return;
    }
    r.cov(&format!("{}:{}", S::NAME, kind));
}

fn case_typed<S: Spec>(sub: &str, id: u64, r: &mut Report) {
    let mut p = Prng::new(id);
    let wb = (S::FAMILY.native_bits() / 8) as usize;
    let bw = S::FAMILY.block_words();
    match sub {
        "pairs" => {
            let (_, seed) = gen_seed(&mut p, S::SEED_LEN, wb, true);
            let kind = p.below(6);
            let cont = gen_continuation::<S>(&mut p);
            match kind {
                // (i) clone at a random point of a random history
                0 | 1 => {
                    let n = p.range(0, 24) as usize;
                    let hist = gen_history::<S>(&mut p, n);
                    let mut a = S::from_seed(&seed);
                    for op in &hist {
                        apply_ext::<S>(&mut a, op);
                    }
                    let mut b = a.clone();
                    let res = run_pair::<S>(&mut a, &mut b, &cont, r);
                    judge::<S>("clone", true, &res, json!({"seed": hex(&seed), "history": show_ops(&hist), "continuation": show_ops(&cont)}), sub, id, r);
                    r.distinct(hkey(&[&"clone", &S::NAME, &seed, &show_ops(&hist)]));
                }
                // (ii) same seed, read positions k words apart
                2 => {
                    // read positions near the start, and deep in the stream (block numbers that
                    // are multiples of 64 / beyond 2^16 words: counters that wrap or are reduced)
                    let skip = match p.below(6) {
                        0 => 1000 + p.below(60) as usize,
                        1 => 2030 + p.below(40) as usize,
                        2 => 65_500 + p.below(80) as usize,
                        _ => p.below(2 * bw as u64 + 3) as usize,
                    };
                    let k = p.range(0, 3) as usize;
                    let mut a = S::from_seed(&seed);
                    let mut b = S::from_seed(&seed);
                    for _ in 0..skip { apply_ext::<S>(&mut a, &Op::U32); }
                    for _ in 0..skip + k { apply_ext::<S>(&mut b, &Op::U32); }
                    let res = run_pair::<S>(&mut a, &mut b, &cont, r);
                    judge::<S>(if k == 0 { "same_position" } else { "shifted_position" }, false, &res,
                        json!({"seed": hex(&seed), "u32_calls_a": skip, "u32_calls_b": skip + k, "continuation": show_ops(&cont)}), sub, id, r);
                    r.distinct(hkey(&[&"shift", &S::NAME, &seed, &skip, &k]));
                    if k > 0 && (skip % bw.max(1)) + k < bw && bw > 1 {
                        r.cov(&format!("{}:same_block_different_index", S::NAME));
                    }
                }
                // (i') Clone::clone_from into an existing, unrelated generator
                4 => {
                    let n = p.range(0, 24) as usize;
                    let hist = gen_history::<S>(&mut p, n);
                    let mut a = S::from_seed(&seed);
                    for op in &hist {
                        apply_ext::<S>(&mut a, op);
                    }
                    // destination: unrelated, or the SAME seed a few words behind / ahead of
                    // the source (same block, same core), or one state word apart
                    let (_, mut seed2) = gen_seed(&mut p, S::SEED_LEN, wb, true);
                    let mut m = p.range(0, 2 * bw as u64 + 5) as usize;
                    match p.below(4) {
                        0 => {
                            seed2 = seed.clone();
                            let consumed: usize = hist.iter().map(|o| match o { Op::U32 => 1, Op::U64 => 2, _ => 0 }).sum();
                            m = (consumed + p.below(7) as usize).saturating_sub(3);
                            r.cov("clone_from_related_destination");
                        }
                        1 => {
                            seed2 = seed.clone();
                            let w = p.below((S::SEED_LEN / wb) as u64) as usize;
                            seed2[w * wb] ^= 1 << p.below(8);
                            m = 0;
                            r.cov("clone_from_related_destination");
                        }
                        _ => {}
                    }
                    let mut b = S::from_seed(&seed2);
                    if seed2 == seed && p.chance(1, 2) {
                        // same history as the source first, so that only the read position differs
                        for op in &hist { if matches!(op, Op::Jump | Op::LongJump) { apply_ext::<S>(&mut b, op); } }
                    }
                    for _ in 0..m { apply_ext::<S>(&mut b, &Op::U32); }
                    b.clone_from(&a);
                    let res = run_pair::<S>(&mut a, &mut b, &cont, r);
                    judge::<S>("clone_from", true, &res, json!({"seed": hex(&seed), "history": show_ops(&hist), "destination_seed": hex(&seed2), "destination_u32_calls": m, "continuation": show_ops(&cont)}), sub, id, r);
                    r.distinct(hkey(&[&"clone_from", &S::NAME, &seed, &show_ops(&hist)]));
                }
                // (iii') seeds whose word differences cancel in a fold (same delta in
                // two words, xor or additive; rotated deltas; swapped words)
                5 => {
                    let words = S::SEED_LEN / wb;
                    let bits = (wb * 8) as u32;
                    let mask = if wb == 4 { 0xffff_ffffu64 } else { u64::MAX };
                    let rd = |s: &[u8], i: usize| -> u64 { let mut v = 0u64; for k in 0..wb { v |= (s[i * wb + k] as u64) << (8 * k); } v };
                    let wr = |s: &mut [u8], i: usize, v: u64| { for k in 0..wb { s[i * wb + k] = (v >> (8 * k)) as u8; } };
                    let mut seed2 = seed.clone();
                    if words >= 2 {
                        let i = p.below(words as u64) as usize;
                        let j = (i + 1 + p.below(words as u64 - 1) as usize) % words;
                        let d = { let v = p.u64() & mask; if v == 0 { 1 } else { v } };
                        let k = if p.chance(1, 2) { 0 } else { p.below(bits as u64) as u32 };
                        let dr = if k == 0 { d } else { ((d << k) | (d >> (bits - k))) & mask };
                        match p.below(3) {
                            0 => { wr(&mut seed2, i, rd(&seed, i) ^ d); wr(&mut seed2, j, rd(&seed, j) ^ dr); }
                            1 => { wr(&mut seed2, i, rd(&seed, i).wrapping_add(d) & mask); wr(&mut seed2, j, rd(&seed, j).wrapping_sub(d) & mask); }
                            _ => { let (a, b) = (rd(&seed, i), rd(&seed, j)); wr(&mut seed2, i, b); wr(&mut seed2, j, a); }
                        }
                    } else {
                        seed2[0] ^= 1;
                    }
                    let mut a = S::from_seed(&seed);
                    let mut b = S::from_seed(&seed2);
                    let res = run_pair::<S>(&mut a, &mut b, &cont, r);
                    judge::<S>("related_seeds", false, &res, json!({"seed_a": hex(&seed), "seed_b": hex(&seed2)}), sub, id, r);
                    r.distinct(hkey(&[&"related", &S::NAME, &seed, &seed2]));
                }
                // (iii) seeds differing in one bit, same history
                _ => {
                    let mut seed2 = seed.clone();
                    let bit = p.below(S::SEED_LEN as u64 * 8) as usize;
                    seed2[bit / 8] ^= 1 << (bit % 8);
                    let n = p.range(0, 12) as usize;
                    let hist = gen_history::<S>(&mut p, n);
                    let mut a = S::from_seed(&seed);
                    let mut b = S::from_seed(&seed2);
                    for op in &hist {
                        apply_ext::<S>(&mut a, op);
                        apply_ext::<S>(&mut b, op);
                    }
                    let res = run_pair::<S>(&mut a, &mut b, &cont, r);
                    judge::<S>("different_seed", false, &res, json!({"seed_a": hex(&seed), "seed_b": hex(&seed2), "history": show_ops(&hist)}), sub, id, r);
                    r.distinct(hkey(&[&"seeds", &S::NAME, &seed, &seed2]));
                }
            }
            r.cov(&format!("type:{}", S::NAME));
        }
        _ => r.inconclusive(format!("unknown sub-monitor {} for C10", sub)),
    }
}

// ---- cores and IsaacArray --------------------------------------------------

trait CoreLike: BlockRngCore + Clone + PartialEq + Sized {
    const NAME: &'static str;
    fn results_eq(a: &Self::Results, b: &Self::Results) -> bool;
    fn results_words(a: &Self::Results) -> Vec<u64>;
}
impl CoreLike for rand_hc::Hc128Core {
    const NAME: &'static str = "Hc128Core";
    fn results_eq(a: &Self::Results, b: &Self::Results) -> bool { a == b }
    fn results_words(a: &Self::Results) -> Vec<u64> { a.iter().map(|&x| x as u64).collect() }
}
impl CoreLike for rand_isaac::isaac::IsaacCore {
    const NAME: &'static str = "IsaacCore";
    fn results_eq(a: &Self::Results, b: &Self::Results) -> bool { a == b }
    fn results_words(a: &Self::Results) -> Vec<u64> { let s: &[u32] = a.as_ref(); s.iter().map(|&x| x as u64).collect() }
}
impl CoreLike for rand_isaac::isaac64::Isaac64Core {
    const NAME: &'static str = "Isaac64Core";
    fn results_eq(a: &Self::Results, b: &Self::Results) -> bool { a == b }
    fn results_words(a: &Self::Results) -> Vec<u64> { let s: &[u64] = a.as_ref(); s.to_vec() }
}

/// eq ⇒ same generated blocks and still eq; different blocks ⇒ must be !=
fn core_pair<C: CoreLike>(mut a: C, mut b: C, kind: &str, is_clone: bool, desc: serde_json::Value, sub: &str, id: u64, r: &mut Report) {
    let (ab, ba) = (a == b, b == a);
    if (a != b) == ab {
        r.violation(format!("{}:ne_is_not_the_negation_of_eq", C::NAME), sub, id, desc.clone());
        return;
    }
    let mut diverged = None;
    let mut ra = C::Results::default();
    let mut rb = C::Results::default();
    for blk in 0..3 {
        a.generate(&mut ra);
        b.generate(&mut rb);
        r.eval();
        let same_words = C::results_words(&ra) == C::results_words(&rb);
        // the Results type's own == must agree with word-wise comparison
        if C::results_eq(&ra, &rb) != same_words {
            r.violation(format!("{}:Results:eq_disagrees_with_content", C::NAME), sub, id, desc.clone());
            return;
        }
        if !same_words {
            diverged = Some(blk);
            break;
        }
    }
    let mut d = desc;
    d["pair_kind"] = json!(kind);
    d["eq_before"] = json!(ab);
    d["diverged_in_block"] = json!(format!("{:?}", diverged));
    if ab != ba {
        r.violation(format!("{}:eq_not_symmetric", C::NAME), sub, id, d);
    } else if is_clone && !ab {
        r.violation(format!("{}:clone_not_equal", C::NAME), sub, id, d);
    } else if ab && diverged.is_some() {
        r.violation(format!("{}:equal_but_futures_differ", C::NAME), sub, id, d);
    } else if ab && a != b {
        r.violation(format!("{}:equal_then_unequal_after_same_ops", C::NAME), sub, id, d);
    } else {
        r.cov(&format!("{}:{}:eq={}", C::NAME, kind, ab));
    }
}

fn core_case(sub: &str, id: u64, r: &mut Report) {
    let mut p = Prng::new(id);
    let seed: [u8; 32] = p.bytes(32).try_into().unwrap();
    let which = p.below(3);
    let gens = p.below(5) as usize;
    match which {
        0 => {
            use rand_hc::Hc128Core as C;
            let mut a = C::from_seed(seed);
            let mut res = [0u32; 16];
            for _ in 0..gens { a.generate(&mut res); }
            match p.below(4) {
                3 => {
                    // clone_from into a core of a different age / seed
                    let mut dst = C::from_seed(p.bytes(32).try_into().unwrap());
                    for _ in 0..p.below(70) { dst.generate(&mut res); }
                    dst.clone_from(&a);
                    core_pair(a, dst, "clone_from", true, json!({"seed": hex(&seed), "generated_blocks": gens}), sub, id, r)
                }
                0 => core_pair(a.clone(), a, "clone", true, json!({"seed": hex(&seed), "generated_blocks": gens}), sub, id, r),
                1 => {
                    // same seed, one more block generated: tables and counter differ
                    let mut b = a.clone();
                    b.generate(&mut res);
                    core_pair(a, b, "one_block_apart", false, json!({"seed": hex(&seed), "generated_blocks": gens}), sub, id, r)
                }
                _ => {
                    let mut s2 = seed;
                    s2[p.below(32) as usize] ^= 1 << p.below(8);
                    let mut b = C::from_seed(s2);
                    for _ in 0..gens { b.generate(&mut res); }
                    core_pair(a, b, "different_seed", false, json!({"seed": hex(&seed), "seed_b": hex(&s2)}), sub, id, r)
                }
            }
            r.cov("core:Hc128Core");
        }
        1 => {
            use rand_isaac::isaac::IsaacCore as C;
            let mut a = C::from_seed(seed);
            let mut res = <C as BlockRngCore>::Results::default();
            for _ in 0..gens { a.generate(&mut res); }
            // a state deep into the stream (any a, b and block counter c, high bits set),
            // installed through the crate's own serde image: clones of old generators
            let deep = p.chance(1, 3);
            if deep {
                let mut img = bincode::serialize(&a).unwrap();
                let tail = p.bytes(3 * 4);
                img[256 * 4..].copy_from_slice(&tail);
                if p.chance(1, 2) { for b in img[258 * 4 + 1..].iter_mut() { *b = if p.chance(1, 2) { 0 } else { 0xff }; } }
                a = bincode::deserialize(&img).unwrap();
                for _ in 0..p.below(3) { a.generate(&mut res); }
                r.cov("core:IsaacCore:deep_state");
            }
            if deep && p.chance(1, 2) {
                core_pair(a.clone(), a, "clone", true, json!({"seed": hex(&seed), "generated_blocks": gens, "deep_state": true}), sub, id, r);
                r.cov("core:IsaacCore");
                r.cov("core:IsaacCore:deep_clone");
                r.distinct(hkey(&[&"core_deep_clone", &which, &seed[..].to_vec(), &gens]));
                return;
            }
            if p.chance(1, 4) {
                // clone_from into a core of a different age / seed
                let mut dst = C::from_seed(p.bytes(32).try_into().unwrap());
                for _ in 0..p.below(5) { dst.generate(&mut res); }
                dst.clone_from(&a);
                core_pair(a, dst, "clone_from", true, json!({"seed": hex(&seed), "generated_blocks": gens}), sub, id, r);
                r.cov("core:IsaacCore");
                r.cov("core:IsaacCore:clone_from");
                r.distinct(hkey(&[&"core_clone_from", &which, &seed[..].to_vec(), &gens]));
                return;
            }
            // single-field perturbation through the serde image: 256 mem words, a, b, c
            let img = bincode::serialize(&a).unwrap();
            assert_eq!(img.len(), 259 * 4);
            let field = match p.below(5) { 0 => 256, 1 => 257, 2 => 258, _ => p.below(256) as usize };
            let mut img2 = img.clone();
            let flip = if p.chance(1, 6) { 0 } else { 1u8 << p.below(8) };
            img2[field * 4 + p.below(4) as usize] ^= flip;
            let b: C = bincode::deserialize(&img2).unwrap();
            let fname = match field { 256 => "a".to_string(), 257 => "b".into(), 258 => "c".into(), i => format!("mem[{}]", i) };
            let kind = if flip == 0 { "identical_image" } else { "single_field_perturbed" };
            core_pair(a, b, kind, flip == 0, json!({"seed": hex(&seed), "generated_blocks": gens, "perturbed_field": fname, "xor": flip}), sub, id, r);
            r.cov(&format!("core:IsaacCore:field:{}", if field < 256 { "mem" } else { &fname }));
            r.cov("core:IsaacCore");
        }
        _ => {
            use rand_isaac::isaac64::Isaac64Core as C;
            let mut a = C::from_seed(seed);
            let mut res = <C as BlockRngCore>::Results::default();
            for _ in 0..gens { a.generate(&mut res); }
            // a state deep into the stream (any a, b and block counter c, high bits set),
            // installed through the crate's own serde image: clones of old generators
            let deep = p.chance(1, 3);
            if deep {
                let mut img = bincode::serialize(&a).unwrap();
                let tail = p.bytes(3 * 8);
                img[256 * 8..].copy_from_slice(&tail);
                if p.chance(1, 2) { for b in img[258 * 8 + 1..].iter_mut() { *b = if p.chance(1, 2) { 0 } else { 0xff }; } }
                a = bincode::deserialize(&img).unwrap();
                for _ in 0..p.below(3) { a.generate(&mut res); }
                r.cov("core:Isaac64Core:deep_state");
            }
            if deep && p.chance(1, 2) {
                core_pair(a.clone(), a, "clone", true, json!({"seed": hex(&seed), "generated_blocks": gens, "deep_state": true}), sub, id, r);
                r.cov("core:Isaac64Core");
                r.cov("core:Isaac64Core:deep_clone");
                r.distinct(hkey(&[&"core_deep_clone", &which, &seed[..].to_vec(), &gens]));
                return;
            }
            if p.chance(1, 4) {
                let mut dst = C::from_seed(p.bytes(32).try_into().unwrap());
                for _ in 0..p.below(5) { dst.generate(&mut res); }
                dst.clone_from(&a);
                core_pair(a, dst, "clone_from", true, json!({"seed": hex(&seed), "generated_blocks": gens}), sub, id, r);
                r.cov("core:Isaac64Core");
                r.cov("core:Isaac64Core:clone_from");
                r.distinct(hkey(&[&"core_clone_from", &which, &seed[..].to_vec(), &gens]));
                return;
            }
            let img = bincode::serialize(&a).unwrap();
            assert_eq!(img.len(), 259 * 8);
            let field = match p.below(5) { 0 => 256, 1 => 257, 2 => 258, _ => p.below(256) as usize };
            let mut img2 = img.clone();
            let flip = if p.chance(1, 6) { 0 } else { 1u8 << p.below(8) };
            img2[field * 8 + p.below(8) as usize] ^= flip;
            let b: C = bincode::deserialize(&img2).unwrap();
            let fname = match field { 256 => "a".to_string(), 257 => "b".into(), 258 => "c".into(), i => format!("mem[{}]", i) };
            let kind = if flip == 0 { "identical_image" } else { "single_field_perturbed" };
            core_pair(a, b, kind, flip == 0, json!({"seed": hex(&seed), "generated_blocks": gens, "perturbed_field": fname, "xor": flip}), sub, id, r);
            r.cov(&format!("core:Isaac64Core:field:{}", if field < 256 { "mem" } else { &fname }));
            r.cov("core:Isaac64Core");
        }
    }
    r.distinct(hkey(&[&"core", &which, &seed[..].to_vec(), &gens]));
}

/// IsaacArray<T> equality: arrays differing in exactly one slot must be !=
fn array_case(sub: &str, id: u64, r: &mut Report) {
    let mut p = Prng::new(id);
    type A32 = <rand_isaac::isaac::IsaacCore as BlockRngCore>::Results;
    type A64 = <rand_isaac::isaac64::Isaac64Core as BlockRngCore>::Results;
    let slot = (id % 256) as usize;
    {
        let mut a = A32::default();
        for w in AsMut::<[u32]>::as_mut(&mut a).iter_mut() { *w = p.u32(); }
        let mut b = a;
        r.eval();
        if !(a == b) {
            r.violation("IsaacArray<u32>:copy_not_equal".into(), sub, id, json!({}));
        }
        AsMut::<[u32]>::as_mut(&mut b)[slot] ^= 1 << p.below(32);
        r.eval();
        if a == b || b == a {
            r.violation("IsaacArray<u32>:differing_slot_compares_equal".into(), sub, id, json!({"slot": slot}));
        }
    }
    {
        let mut a = A64::default();
        for w in AsMut::<[u64]>::as_mut(&mut a).iter_mut() { *w = p.u64(); }
        let mut b = a;
        r.eval();
        if !(a == b) {
            r.violation("IsaacArray<u64>:copy_not_equal".into(), sub, id, json!({}));
        }
        AsMut::<[u64]>::as_mut(&mut b)[slot] ^= 1 << p.below(64);
        r.eval();
        if a == b || b == a {
            r.violation("IsaacArray<u64>:differing_slot_compares_equal".into(), sub, id, json!({"slot": slot}));
        }
    }
    r.cov("isaac_array_slots");
    r.distinct(hkey(&[&"array", &slot]));
}

fn case(sub: &str, id: u64, r: &mut Report) {
    match sub {
        "cores" => core_case(sub, id, r),
        "arrays" => array_case(sub, id, r),
        _ => {
            let ti = Prng::new(id ^ 0x5151).below(N_TYPES as u64) as usize;
            with_spec!(ti, S => case_typed::<S>(sub, id, r));
        }
    }
}

/// `==` must separate generators with different futures: M Hc128Rng from M distinct
/// seeds are compared pairwise (tiled so that both sides of a tile stay in cache; the
/// real `==` stops at the first differing word, a few ns per pair). A comparison that
/// looks at a digest of the 4 KiB table instead of the table (2^-32 per pair for a
/// 32-bit digest) needs about 2^32 pairs: M = 180 000 in the main stage (2^33.9 pairs,
/// about 4 expected digest collisions), M = 2^15 in the other build configurations.
fn pairwise_ne(ctx: &Ctx, r: &mut Report) {
    use rand_core::{RngCore, SeedableRng};
    let reduced = crate::util::REDUCED.load(std::sync::atomic::Ordering::Relaxed);
    let m: usize = if reduced { 12 } else if (ctx.tier_thorough && ctx.scale >= 1.0) || ctx.scale >= 3.0 { 180_000 } else { 1 << 15 };
    let mk = |k: usize| -> [u8; 32] {
        let mut p = Prng::new(ctx.seed.wrapping_mul(0x9e37_79b9).wrapping_add(k as u64) ^ 0x7061_6972);
        let mut s: [u8; 32] = p.bytes(32).try_into().unwrap();
        s[..8].copy_from_slice(&(k as u64).to_le_bytes()); // distinct by construction
        s
    };
    let threads = ctx.threads.max(1);
    // construction in parallel
    let parts: Vec<Vec<rand_hc::Hc128Rng>> = {
        let mut slots: Vec<Vec<rand_hc::Hc128Rng>> = (0..threads).map(|_| Vec::new()).collect();
        std::thread::scope(|sc| {
            for (t, slot) in slots.iter_mut().enumerate() {
                let mk = &mk;
                sc.spawn(move || {
                    let (lo, hi) = (t * m / threads, (t + 1) * m / threads);
                    for k in lo..hi { slot.push(rand_hc::Hc128Rng::from_seed(mk(k))); }
                });
            }
        });
        slots
    };
    let gens: Vec<rand_hc::Hc128Rng> = parts.into_iter().flatten().collect();
    const TILE: usize = 128;
    let tiles = (m + TILE - 1) / TILE;
    let found = std::sync::atomic::AtomicBool::new(false);
    let rep = crate::util::par(threads, |t, r| {
        let mut pairs = 0u64;
        for ti in (t..tiles).step_by(threads) {
            for tj in ti..tiles {
                if found.load(std::sync::atomic::Ordering::Relaxed) { return; }
                let (a0, a1) = (ti * TILE, ((ti + 1) * TILE).min(m));
                let (b0, b1) = (tj * TILE, ((tj + 1) * TILE).min(m));
                for i in a0..a1 {
                    for j in b0.max(i + 1)..b1 {
                        pairs += 1;
                        if gens[i] == gens[j] {
                            found.store(true, std::sync::atomic::Ordering::Relaxed);
                            let (mut x, mut y) = (gens[i].clone(), gens[j].clone());
                            let differ = (0..64).any(|_| x.next_u32() != y.next_u32());
                            r.violation("Hc128Rng:eq_between_generators_from_different_seeds".into(), "pairwise_ne", (i as u64) << 32 | j as u64, json!({
                                "seed_a": hex(&mk(i)), "seed_b": hex(&mk(j)), "futures_differ": differ,
                                "note": "a == b must imply equal futures; found by comparing all pairs of M generators"}));
                            return;
                        }
                    }
                }
            }
        }
        r.covn("pairwise_ne_pairs", pairs);
        r.evaluations += pairs;
    });
    r.merge(rep);
    r.covn("pairwise_ne_generators", m as u64);
}

pub fn run(ctx: &Ctx, only: Option<&Only>) -> Report {
    if let Some(o) = only {
        let mut r = Report::new();
        let sub = o.sub.to_string();
        run_case(o.sub, o.id, &mut r, &|id, r: &mut Report| case(&sub, id, r));
        return r;
    }
    let secs = if ctx.tier_thorough { ctx.budget_s } else { 0.0 };
    let mut total = drive(ctx, "pairs", 40_000, secs * 0.7, |id, r| case("pairs", id, r));
    total.merge(drive(ctx, "cores", 6_000, secs * 0.3, |id, r| case("cores", id, r)));
    total.merge(par(ctx.threads, |t, r| {
        for slot in 0..256u64 {
            if slot as usize % ctx.threads == t {
                run_case("arrays", slot, r, &|id, r: &mut Report| case("arrays", id, r));
            }
        }
    }));
    pairwise_ne(ctx, &mut total);
    total.floor("pairwise_ne_pairs", if ctx.tier_thorough || ctx.scale >= 3.0 { 1 << 33 } else { 1 << 28 });
    for n in TYPE_NAMES {
        total.floor(&format!("type:{}", n), 100);
        total.floor(&format!("{}:clone", n), 20);
        total.floor(&format!("{}:clone_from", n), 20);
    }
    total.floor("clone_from_related_destination", 500);
    {
    }
    total.floor("Hc128Rng:same_block_different_index", 10);
    total.floor("Hc128Rng:shifted_position:eq=false", 10);
    total.floor("isaac_array_slots", 256);
    for c in ["Hc128Core", "IsaacCore", "Isaac64Core"] {
        total.floor(&format!("core:{}", c), 100);
    }
    total.floor("Hc128Core:clone_from:eq=true", 10);
    for c in ["IsaacCore", "Isaac64Core"] {
        total.floor(&format!("core:{}:clone_from", c), 10);
        for f in ["mem", "a", "b", "c"] {
            total.floor(&format!("core:{}:field:{}", c, f), 10);
        }
    }
    total
}
