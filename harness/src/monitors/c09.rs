//! C09: all seeding routes agree (seed_from_u64 / from_rng / try_from_rng),
//! with exhaustive enumeration of the position at which a fallible source
//! starts failing.

use super::c08::special_u64;
use super::{drive, run_case, Only};
use crate::drive::*;
use crate::models::{isaac, vigna};
use crate::specs::*;
use crate::util::*;
use crate::with_spec;
use rand_core::{RngCore, SeedableRng};
use serde_json::json;

fn native<S: Spec>(g: &mut S::R) -> u64 {
    match S::FAMILY {
        Family::W32 | Family::Block32(_) => g.next_u32() as u64,
        _ => g.next_u64(),
    }
}

/// Equality of two generators: `==` where it exists, and always by two blocks
/// (+4 words) of native outputs drawn from clones.
fn same<S: Spec>(a: &S::R, b: &S::R, r: &mut Report) -> bool {
    r.eval();
    if let Some(e) = S::eq(a, b) {
        if !e {
            return false;
        }
    }
    let (mut x, mut y) = (a.clone(), b.clone());
    let n = 2 * S::FAMILY.block_words() + 4;
    (0..n).all(|_| native::<S>(&mut x) == native::<S>(&mut y))
}

/// first `n` native outputs of the generator vs a model closure
fn matches_model<S: Spec>(g: &S::R, model_next: &mut dyn FnMut() -> u64, r: &mut Report) -> Option<(usize, u64, u64)> {
    let mut c = g.clone();
    let n = 2 * S::FAMILY.block_words() + 4;
    for k in 0..n {
        r.eval();
        let (a, b) = (native::<S>(&mut c), model_next());
        if a != b {
            return Some((k, b, a));
        }
    }
    None
}

/// documented expansion of a u64 into a seed (None for ISAAC, which has its own)
fn expand<S: Spec>(x: u64) -> Option<Vec<u8>> {
    match S::NAME {
        "XorShiftRng" | "Hc128Rng" => Some(vigna::pcg32_expand(x, S::SEED_LEN)),
        "IsaacRng" | "Isaac64Rng" => None,
        "SplitMix64" => Some(x.to_le_bytes().to_vec()),
        _ => Some(vigna::SplitMix::expand(x, S::SEED_LEN)),
    }
}

/// how many source bytes one construction consumes, and in which calls
fn expected_calls<S: Spec>(leading_zero_blocks: usize) -> Vec<SrcCall> {
    match S::NAME {
        "IsaacRng" => vec![SrcCall::Fill(1024)],
        "Isaac64Rng" => vec![SrcCall::Fill(2048)],
        "XorShiftRng" => vec![SrcCall::Fill(16); leading_zero_blocks + 1],
        _ => vec![SrcCall::Fill(S::SEED_LEN)],
    }
}

/// the generator the documentation says from_rng builds from `bytes`
fn built_from<S: Spec>(bytes: &[u8], leading_zero_blocks: usize, r: &mut Report, g: &S::R) -> Result<(), serde_json::Value> {
    match S::NAME {
        "IsaacRng" => {
            let mut m = isaac::isaac32_from_key_bytes(&bytes[..1024]);
            match matches_model::<S>(g, &mut || m.next() as u64, r) {
                None => Ok(()),
                Some((k, want, got)) => Err(json!({"position": k, "expected": hx64(want), "observed": hx64(got)})),
            }
        }
        "Isaac64Rng" => {
            let mut m = isaac::isaac64_from_key_bytes(&bytes[..2048]);
            match matches_model::<S>(g, &mut || m.next(), r) {
                None => Ok(()),
                Some((k, want, got)) => Err(json!({"position": k, "expected": hx64(want), "observed": hx64(got)})),
            }
        }
        _ => {
            let off = if S::NAME == "XorShiftRng" { leading_zero_blocks * 16 } else { 0 };
            let seed = &bytes[off..off + S::SEED_LEN];
            let want = S::from_seed(seed);
            if same::<S>(g, &want, r) {
                Ok(())
            } else {
                Err(json!({"seed_bytes_delivered": hex(seed)}))
            }
        }
    }
}

/// seed_from_u64(x) against from_seed(documented expansion of x) (ISAAC: against the
/// reference model seeded the documented way); false after reporting a violation
fn check_u64<S: Spec>(x: u64, sub: &str, id: u64, r: &mut Report) -> bool {
    let g = S::R::seed_from_u64(x);
    let bad = match expand::<S>(x) {
        Some(seed) => {
            let h = S::from_seed(&seed);
            if same::<S>(&g, &h, r) { None } else { Some(json!({"expansion": hex(&seed)})) }
        }
        None if S::NAME == "IsaacRng" => {
            let mut m = isaac::isaac32_from_u64(x);
            matches_model::<S>(&g, &mut || m.next() as u64, r)
                .map(|(k, w, o)| json!({"position": k, "expected": hx64(w), "observed": hx64(o)}))
        }
        None => {
            let mut m = isaac::isaac64_from_u64(x);
            matches_model::<S>(&g, &mut || m.next(), r)
                .map(|(k, w, o)| json!({"position": k, "expected": hx64(w), "observed": hx64(o)}))
        }
    };
    if let Some(mut d) = bad {
        d["type"] = json!(S::NAME);
        d["x"] = json!(hx64(x));
        r.violation(format!("{}:seed_from_u64!=from_seed(expansion)", S::NAME), sub, id, d);
        return false;
    }
    r.distinct(hkey(&[&"u64", &S::NAME, &x]));
    true
}

/// Arguments of seed_from_u64 whose documented SplitMix64 expansion is STRUCTURED in a
/// way no formula reaches (the expansion words XOR or add up to zero, two words are
/// equal, a word is 0 / all ones): about 2^-32 of all arguments each, so they are searched
/// for on the reference model (2^22 consecutive arguments per case, a few ns each) and
/// every hit is then checked on every generator type.
fn expansion_sweep(sub: &str, id: u64, r: &mut Report) {
    const PHI: u64 = 0x9e37_79b9_7f4a_7c15;
    let mut p = Prng::new(id);
    let start = p.u64();
    let n: u64 = if crate::util::REDUCED.load(std::sync::atomic::Ordering::Relaxed) { 1 << 8 } else { 1 << 22 };
    let fin = vigna::SplitMix::fin64;
    let mut hits: Vec<(u64, &'static str)> = Vec::new();
    let mut c1 = start.wrapping_add(PHI);
    for k in 0..n {
        let x = start.wrapping_add(k);
        let (z1, z2) = (fin(c1), fin(c1.wrapping_add(PHI)));
        c1 = c1.wrapping_add(1);
        let (a, b, c, d) = (z1 as u32, (z1 >> 32) as u32, z2 as u32, (z2 >> 32) as u32);
        let what = if a ^ b ^ c ^ d == 0 { "xor_of_four_words_zero" }
            else if a.wrapping_add(b).wrapping_add(c).wrapping_add(d) == 0 { "sum_of_four_words_zero" }
            else if a == b { "first_two_words_equal" }
            else if a == c || b == d || a == d || b == c || c == d { "two_words_equal" }
            else if a == 0 || b == 0 || c == 0 || d == 0 { "zero_word" }
            else if a == u32::MAX || b == u32::MAX { "ones_word" }
            else { continue };
        hits.push((x, what));
    }
    r.covn("expansion_sweep_arguments", n);
    for (x, what) in hits {
        for ti in 0..N_TYPES {
            let ok = with_spec!(ti, S => check_u64::<S>(x, sub, id, r));
            if !ok { return; }
        }
        r.cov(&format!("expansion_sweep_hit:{}", what));
        r.cov("expansion_sweep_hits");
    }
}

fn case_typed<S: Spec>(sub: &str, id: u64, r: &mut Report) {
    let mut p = Prng::new(id);
    let wb = (S::FAMILY.native_bits() / 8) as usize;
    match sub {
        "seed_from_u64" => {
            for k in 0..32 {
                let x = special_u64(&mut p, k);
                if !check_u64::<S>(x, sub, id, r) { return; }
            }
            r.cov(&format!("seed_from_u64:{}", S::NAME));
        }
        "from_rng" => {
            let is_xs = S::NAME == "XorShiftRng";
            let k = if !is_xs { 0 } else if p.chance(1, 2) { p.below(4) as usize } else { *p.pick(zero_block_counts()) };
            let need = expected_calls::<S>(k).iter().map(|c| if let SrcCall::Fill(n) = c { *n } else { 0 }).sum::<usize>();
            let mut data = vec![0u8; k * 16];
            // sometimes an all-zero block for the remapping generators
            if !is_xs && S::LINEAR && p.chance(1, 10) {
                data.extend_from_slice(&vec![0u8; S::SEED_LEN]);
            } else {
                while data.len() < need {
                    let (_, s) = gen_seed(&mut p, S::SEED_LEN, wb, false);
                    // the documented zero-seed substitute arriving as ordinary data
                    let s = if (S::LINEAR && p.chance(1, 8)) { r.cov("preset_block_as_data"); preset_block(S::NAME, S::SEED_LEN) } else { s };
                    data.extend_from_slice(&s);
                }
            }
            data.truncate(need);
            data.extend_from_slice(&p.bytes(40));
            let desc = json!({"type": S::NAME, "leading_zero_blocks": k, "source_prefix": hex(&data[..data.len().min(80)])});
            // from_rng
            let mut src = SourceRng::new(data.clone());
            let g = S::R::from_rng(&mut src);
            r.eval();
            if src.log != expected_calls::<S>(k) || src.pos != need {
                let mut d = desc.clone();
                d["source_calls"] = json!(format!("{:?}", src.log));
                d["expected_calls"] = json!(format!("{:?}", expected_calls::<S>(k)));
                d["source_advanced_by"] = json!(src.pos);
                r.violation(format!("{}:from_rng:source_advance", S::NAME), sub, id, d);
                return;
            }
            if let Err(mut d) = built_from::<S>(&src.filled, k, r, &g) {
                d["input"] = desc.clone();
                r.violation(format!("{}:from_rng:generator", S::NAME), sub, id, d);
                return;
            }
            // try_from_rng on a source that does not fail
            let mut fsrc = FallibleSource(SourceRng::new(data.clone()));
            match S::R::try_from_rng(&mut fsrc) {
                Ok(g2) => {
                    r.eval();
                    if !same::<S>(&g, &g2, r) {
                        r.violation(format!("{}:try_from_rng!=from_rng", S::NAME), sub, id, desc.clone());
                        return;
                    }
                    if fsrc.0.log != expected_calls::<S>(k) || fsrc.0.pos != need {
                        let mut d = desc.clone();
                        d["source_calls"] = json!(format!("{:?}", fsrc.0.log));
                        r.violation(format!("{}:try_from_rng:source_advance", S::NAME), sub, id, d);
                        return;
                    }
                }
                Err(_) => {
                    r.violation(format!("{}:try_from_rng:error_from_infallible_source", S::NAME), sub, id, desc.clone());
                    return;
                }
            }
            // every position at which the source can start failing
            let ncalls = expected_calls::<S>(k).len();
            // every position (exhaustive) up to 40 calls; beyond that the first and last
            // few positions plus a random sample
            let positions: Vec<usize> = if ncalls <= 40 { (0..=ncalls + 1).collect() } else {
                let mut v: Vec<usize> = vec![0, 1, 2, 3, ncalls - 2, ncalls - 1, ncalls, ncalls + 1];
                for _ in 0..6 { v.push(p.below(ncalls as u64) as usize); }
                v
            };
            if ncalls > 40 { r.cov("fail_positions_sampled"); }
            for f in positions {
                let mut fs = SourceRng::new(data.clone());
                fs.fail_from = Some(f);
                fs.scribble = p.chance(1, 2);
                // persistent failure from call f on, or only call f fails (a retry would succeed)
                fs.fail_once = p.chance(1, 2);
                fs.token = p.u64();
                let token = fs.token;
                let mut fsrc = FallibleSource(fs);
                let res = S::R::try_from_rng(&mut fsrc);
                r.eval();
                r.cov(&format!("fail_position:{}", f.min(5)));
                match res {
                    Ok(g3) => {
                        if f < ncalls {
                            let mut d = desc.clone();
                            d["fail_from_call"] = json!(f);
                            r.violation(format!("{}:try_from_rng:Ok_from_failing_source", S::NAME), sub, id, d);
                            return;
                        }
                        if !same::<S>(&g, &g3, r) {
                            r.violation(format!("{}:try_from_rng!=from_rng", S::NAME), sub, id, desc.clone());
                            return;
                        }
                    }
                    Err(e) => {
                        if f >= ncalls {
                            let mut d = desc.clone();
                            d["fail_from_call"] = json!(f);
                            r.violation(format!("{}:try_from_rng:Err_without_failure", S::NAME), sub, id, d);
                            return;
                        }
                        if e.0 != token {
                            r.violation(format!("{}:try_from_rng:wrong_error", S::NAME), sub, id, desc.clone());
                            return;
                        }
                        r.cov("error_propagated");
                    }
                }
            }
            r.distinct(hkey(&[&"from_rng", &S::NAME, &data]));
            r.cov(&format!("from_rng:{}", S::NAME));
            r.sample(json!({"constructor": "from_rng/try_from_rng", "input": desc, "fail_positions_enumerated": ncalls + 2}));
        }
        _ => r.inconclusive(format!("unknown sub-monitor {} for C09", sub)),
    }
}

/// the public cores are SeedableRng themselves: every seeding route of a core
/// (also through a hand-built BlockRng / BlockRng64) must give the stream of the
/// corresponding Rng type
fn core_case(sub: &str, id: u64, r: &mut Report) {
    use rand_core::block::{BlockRng, BlockRng64};
    let mut p = Prng::new(id);
    let x = special_u64(&mut p, id % 12);
    let data = p.bytes(2200);
    let seed: [u8; 32] = p.bytes(32).try_into().unwrap();
    macro_rules! cmp {
        ($name:expr, $a:expr, $b:expr, $n:expr, $next:ident) => {{
            let (mut a, mut b) = ($a, $b);
            for k in 0..$n {
                r.eval();
                let (u, v) = (a.$next(), b.$next());
                if u != v {
                    r.violation(format!("{}:core_route_differs_from_rng_route", $name), sub, id, json!({"x": hx64(x), "seed": hex(&seed), "position": k}));
                    return;
                }
            }
        }};
    }
    use rand_hc::{Hc128Core, Hc128Rng};
    use rand_isaac::{isaac::IsaacCore, isaac64::Isaac64Core, Isaac64Rng, IsaacRng};
    cmp!("Hc128Core:seed_from_u64", BlockRng::new(Hc128Core::seed_from_u64(x)), Hc128Rng::seed_from_u64(x), 40, next_u32);
    cmp!("BlockRng<Hc128Core>:seed_from_u64", BlockRng::<Hc128Core>::seed_from_u64(x), Hc128Rng::seed_from_u64(x), 40, next_u32);
    cmp!("Hc128Core:from_seed", BlockRng::new(Hc128Core::from_seed(seed)), Hc128Rng::from_seed(seed), 40, next_u32);
    cmp!("Hc128Core:from_rng", BlockRng::new(Hc128Core::from_rng(&mut SourceRng::new(data.clone()))), Hc128Rng::from_rng(&mut SourceRng::new(data.clone())), 40, next_u32);
    cmp!("IsaacCore:seed_from_u64", BlockRng::new(IsaacCore::seed_from_u64(x)), IsaacRng::seed_from_u64(x), 300, next_u32);
    cmp!("BlockRng<IsaacCore>:seed_from_u64", BlockRng::<IsaacCore>::seed_from_u64(x), IsaacRng::seed_from_u64(x), 300, next_u32);
    cmp!("IsaacCore:from_seed", BlockRng::new(IsaacCore::from_seed(seed)), IsaacRng::from_seed(seed), 300, next_u32);
    cmp!("IsaacCore:from_rng", BlockRng::new(IsaacCore::from_rng(&mut SourceRng::new(data.clone()))), IsaacRng::from_rng(&mut SourceRng::new(data.clone())), 300, next_u32);
    cmp!("IsaacCore:try_from_rng", BlockRng::new(IsaacCore::try_from_rng(&mut FallibleSource(SourceRng::new(data.clone()))).unwrap()), IsaacRng::from_rng(&mut SourceRng::new(data.clone())), 300, next_u32);
    cmp!("Isaac64Core:seed_from_u64", BlockRng64::new(Isaac64Core::seed_from_u64(x)), Isaac64Rng::seed_from_u64(x), 300, next_u64);
    cmp!("BlockRng64<Isaac64Core>:seed_from_u64", BlockRng64::<Isaac64Core>::seed_from_u64(x), Isaac64Rng::seed_from_u64(x), 300, next_u64);
    cmp!("Isaac64Core:from_seed", BlockRng64::new(Isaac64Core::from_seed(seed)), Isaac64Rng::from_seed(seed), 300, next_u64);
    cmp!("Isaac64Core:from_rng", BlockRng64::new(Isaac64Core::from_rng(&mut SourceRng::new(data.clone()))), Isaac64Rng::from_rng(&mut SourceRng::new(data.clone())), 300, next_u64);
    cmp!("Isaac64Core:try_from_rng", BlockRng64::new(Isaac64Core::try_from_rng(&mut FallibleSource(SourceRng::new(data.clone()))).unwrap()), Isaac64Rng::from_rng(&mut SourceRng::new(data.clone())), 300, next_u64);
    r.cov("core_routes");
    r.distinct(hkey(&[&"cores", &x, &seed[..].to_vec()]));
}

fn case(sub: &str, id: u64, r: &mut Report) {
    if sub == "cores" {
        return core_case(sub, id, r);
    }
    if sub == "expansion_sweep" {
        return expansion_sweep(sub, id, r);
    }
    let ti = Prng::new(id ^ 0x4321).below(N_TYPES as u64) as usize;
    with_spec!(ti, S => case_typed::<S>(sub, id, r));
}

pub fn run(ctx: &Ctx, only: Option<&Only>) -> Report {
    if let Some(o) = only {
        let mut r = Report::new();
        let sub = o.sub.to_string();
        run_case(o.sub, o.id, &mut r, &|id, r: &mut Report| case(&sub, id, r));
        return r;
    }
    let secs = if ctx.tier_thorough { ctx.budget_s } else { 0.0 };
    let mut total = drive(ctx, "seed_from_u64", 12_000, secs * 0.5, |id, r| case("seed_from_u64", id, r));
    total.merge(drive(ctx, "from_rng", 12_000, secs * 0.45, |id, r| case("from_rng", id, r)));
    total.merge(drive(ctx, "cores", 1_500, secs * 0.05, |id, r| case("cores", id, r)));
    // 2048 x 2^22 = 2^33 arguments per unit of scale: 2 expected hits per 2^-32 condition
    total.merge(drive(ctx, "expansion_sweep", 2_048, secs * 0.3, |id, r| case("expansion_sweep", id, r)));
    total.floor("expansion_sweep_arguments", 1 << 33);
    total.floor("expansion_sweep_hits", 4);
    total.floor("core_routes", 500);
    for n in TYPE_NAMES {
        total.floor(&format!("seed_from_u64:{}", n), 50);
        total.floor(&format!("from_rng:{}", n), 50);
    }
    total.floor("error_propagated", 100);
    total.floor("preset_block_as_data", 100);
    for f in 0..=2 {
        total.floor(&format!("fail_position:{}", f), 100);
    }
    total
}
