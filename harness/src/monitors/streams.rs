//! C01–C04: lock-step reference-model monitors. The real generator and an
//! independent model are started from the same seed; every native-width output
//! is compared, and (small generators) the state image after every k-th step.

use super::{drive, Only};
use crate::drive::{gen_seed, single_byte_seeds, special_seeds};
use crate::specs::*;
use crate::util::*;
use crate::with_spec;
use rand_core::block::{BlockRng, BlockRngCore};
use rand_core::{RngCore, SeedableRng};
use serde_json::json;

fn types_of(prop: u32) -> Vec<usize> {
    match prop {
        1 => (0..15).collect(),
        2 => vec![IDX_HC128],
        3 => vec![IDX_ISAAC, IDX_ISAAC64],
        _ => vec![IDX_XORSHIFT],
    }
}

fn pid(prop: u32) -> String {
    format!("C{:02}", prop)
}

/// Compare `n_out` native outputs of `S::from_seed(seed)` with the model.
/// Returns false on the first divergence (already reported).
fn lockstep<S: Spec>(seed: &[u8], n_out: usize, image_every: usize, mix_widths: bool, sub: &str, id: u64, r: &mut Report) -> bool {
    let mut model = RefModel::from_seed(S::NAME, seed);
    let mut rng = match guarded(|| S::from_seed(seed)) {
        Ok(g) => g,
        Err(c) => {
            r.violation(format!("{}:from_seed:{}", S::NAME, c.signature()), sub, id, json!({"type": S::NAME, "seed": hex(seed)}));
            return false;
        }
    };
    let mut choice = Prng::new(id ^ 0x55);
    let mut first = Vec::new();
    for k in 0..n_out {
        // the stream continues unchanged across clone() / clone_from()
        if k % 11 == 5 && (n_out <= 4096 || k % 97 == 38) {
            let variant = (k / 11) % 3;
            if variant == 0 {
                rng = rng.clone();
            } else {
                // destination: unrelated, or differing from the current state in one word
                let mut other = match (variant, model.state_bytes()) {
                    (2, Some(mut st)) => {
                        let wbytes = word_bytes(S::FAMILY);
                        let w = (k / 33 + id as usize) % (S::SEED_LEN / wbytes);
                        st[w * wbytes] ^= 0x10;
                        if st.iter().all(|&b| b == 0) { st[0] = 1; }
                        S::from_seed(&st)
                    }
                    _ => {
                        let mut o = S::from_seed(&vec![0x5au8; S::SEED_LEN]);
                        for _ in 0..(k % 300) { o.next_u32(); }
                        o
                    }
                };
                other.clone_from(&rng);
                rng = other;
            }
        }
        let (got, want, width) = match S::FAMILY {
            Family::W32 | Family::Block32(_) => (rng.next_u32() as u64, model.next(), "u32"),
            Family::SplitMix if mix_widths && choice.chance(1, 2) => {
                // SplitMix64::next_u32: Mix4 finalizer of the same counter step
                let want = match &mut model {
                    RefModel::SplitMix(s) => s.next_u32() as u64,
                    _ => unreachable!(),
                };
                (rng.next_u32() as u64, want, "u32(mix4)")
            }
            _ => (rng.next_u64(), model.next(), "u64"),
        };
        r.eval();
        if k < 4 {
            first.push(got);
        }
        if got != want {
            r.violation(
                format!("{}:stream:{}", S::NAME, width),
                sub,
                id,
                json!({"type": S::NAME, "seed": hex(seed), "position": k, "call": width,
                       "expected": hx64(want), "observed": hx64(got)}),
            );
            return false;
        }
        if image_every > 0 && (k + 1) % image_every == 0 {
            if let Some(ms) = model.state_bytes() {
                if let Some(img) = S::bincode(&rng) {
                    r.eval();
                    if img != ms {
                        r.violation(
                            format!("{}:state_image", S::NAME),
                            sub,
                            id,
                            json!({"type": S::NAME, "seed": hex(seed), "after_steps": k + 1,
                                   "expected_state": hex(&ms), "observed_image": hex(&img)}),
                        );
                        return false;
                    }
                }
                // the same state through a self-describing snapshot whose members arrive in
                // another order (restoring must give the generator back, stream and all)
                if !crate::util::REDUCED.load(std::sync::atomic::Ordering::Relaxed) && (k / image_every) % 4 == 0 {
                    if let Some(text) = S::json(&rng) {
                        let re = crate::util::reorder_json(&text, (k % 3) as u8);
                        r.eval();
                        let bad = match S::from_json(&re) {
                            Some(Ok(g)) => if S::eq(&g, &rng) == Some(false) { Some("restored generator differs".to_string()) } else { None },
                            Some(Err(e)) => Some(format!("deserialize failed: {}", e)),
                            None => None,
                        };
                        if let Some(why) = bad {
                            r.violation(format!("{}:state_through_reordered_json", S::NAME), sub, id,
                                json!({"type": S::NAME, "seed": hex(seed), "after_steps": k + 1, "document": re, "why": why}));
                            return false;
                        }
                    }
                }
                {
                    let twin = S::from_seed(&ms);
                    if let Some(eq) = S::eq(&rng, &twin) {
                        r.eval();
                        // (a zero state cannot occur here: the model state is a
                        // successor of a non-zero state of an invertible map)
                        if !eq && (ms.iter().any(|&b| b != 0) || !S::LINEAR) {
                            r.violation(
                                format!("{}:state_eq_from_seed", S::NAME),
                                sub,
                                id,
                                json!({"type": S::NAME, "seed": hex(seed), "after_steps": k + 1,
                                       "expected_state": hex(&ms)}),
                            );
                            return false;
                        }
                    }
                }
            }
        }
    }
    if r.wants_sample() {
        let first: Vec<String> = first.iter().map(|&g| hx64(g)).collect();
        r.sample(json!({"type": S::NAME, "seed": hex(seed), "outputs_compared": n_out, "first_outputs": first}));
    }
    true
}

/// HC-128 and ISAAC cores driven directly through `BlockRngCore::generate`.
fn core_blocks(type_idx: usize, seed: &[u8], blocks: usize, sub: &str, id: u64, r: &mut Report) {
    let mut model = RefModel::from_seed(TYPE_NAMES[type_idx], seed);
    match type_idx {
        IDX_HC128 => {
            let mut core = rand_hc::Hc128Core::from_seed(seed.try_into().unwrap());
            let mut res = [0u32; 16];
            let mut q = Prng::new(id ^ 0xc10e);
            for b in 0..blocks {
                // the keystream continues across clone() / clone_from() of the core
                match q.below(24) {
                    0 => core = core.clone(),
                    1 => {
                        let mut other = rand_hc::Hc128Core::from_seed(q.bytes(32).try_into().unwrap());
                        for _ in 0..q.below(70) { other.generate(&mut res); }
                        other.clone_from(&core);
                        core = other;
                        r.cov("core_clone_from");
                    }
                    // generate() must not depend on what the results buffer held before:
                    // zeros, junk, or exactly the block it is about to produce (look-ahead on a clone)
                    2 => res = [0u32; 16],
                    3 => { for w in res.iter_mut() { *w = q.u32(); } }
                    4 | 5 => { let mut ahead = core.clone(); ahead.generate(&mut res); r.cov("generate_into_lookahead_buffer"); }
                    _ => {}
                }
                core.generate(&mut res);
                for (j, &w) in res.iter().enumerate() {
                    r.eval();
                    let want = model.next() as u32;
                    if w != want {
                        r.violation("Hc128Core:generate".into(), sub, id,
                            json!({"type": "Hc128Core", "seed": hex(seed), "block": b, "word": j,
                                   "expected": hx32(want), "observed": hx32(w)}));
                        return;
                    }
                }
                r.cov(&format!("hc_core_block_slot:{}", b % 64));
            }
        }
        IDX_ISAAC => {
            let mut core = rand_isaac::isaac::IsaacCore::from_seed(seed.try_into().unwrap());
            let mut res = <rand_isaac::isaac::IsaacCore as BlockRngCore>::Results::default();
            let mut q = Prng::new(id ^ 0xc10e);
            for b in 0..blocks {
                match q.below(6) {
                    0 => core = core.clone(),
                    1 => {
                        let mut other = rand_isaac::isaac::IsaacCore::from_seed(q.bytes(32).try_into().unwrap());
                        let mut scratch = <rand_isaac::isaac::IsaacCore as BlockRngCore>::Results::default();
                        for _ in 0..q.below(4) { other.generate(&mut scratch); }
                        other.clone_from(&core);
                        core = other;
                        r.cov("core_clone_from");
                    }
                    _ => {}
                }
                core.generate(&mut res);
                for j in 0..256 {
                    r.eval();
                    let want = model.next() as u32;
                    let w: &[u32] = res.as_ref();
                    if w[j] != want {
                        r.violation("IsaacCore:generate".into(), sub, id,
                            json!({"type": "IsaacCore", "seed": hex(seed), "block": b, "word": j,
                                   "expected": hx32(want), "observed": hx32(w[j])}));
                        return;
                    }
                }
            }
        }
        IDX_ISAAC64 => {
            let mut core = rand_isaac::isaac64::Isaac64Core::from_seed(seed.try_into().unwrap());
            let mut res = <rand_isaac::isaac64::Isaac64Core as BlockRngCore>::Results::default();
            let mut q = Prng::new(id ^ 0xc10e);
            for b in 0..blocks {
                match q.below(6) {
                    0 => core = core.clone(),
                    1 => {
                        let mut other = rand_isaac::isaac64::Isaac64Core::from_seed(q.bytes(32).try_into().unwrap());
                        let mut scratch = <rand_isaac::isaac64::Isaac64Core as BlockRngCore>::Results::default();
                        for _ in 0..q.below(4) { other.generate(&mut scratch); }
                        other.clone_from(&core);
                        core = other;
                        r.cov("core_clone_from");
                    }
                    _ => {}
                }
                core.generate(&mut res);
                for j in 0..256 {
                    r.eval();
                    let want = model.next();
                    let w: &[u64] = res.as_ref();
                    if w[j] != want {
                        r.violation("Isaac64Core:generate".into(), sub, id,
                            json!({"type": "Isaac64Core", "seed": hex(seed), "block": b, "word": j,
                                   "expected": hx64(want), "observed": hx64(w[j])}));
                        return;
                    }
                }
            }
        }
        _ => {}
    }
}

/// Inverse of the REFERENCE step of a linear engine (from the model, not from
/// the crate), cached per type: used to aim seeds at states whose successor
/// (or k-th successor) is structured — sparse, zero words, equal words …
fn model_inverse(name: &'static str, seed_len: usize) -> Option<std::sync::Arc<crate::models::gf2::Mat>> {
    use crate::models::gf2::{BitVec, Mat};
    use std::collections::HashMap;
    use std::sync::{Arc, Mutex, OnceLock};
    static CACHE: OnceLock<Mutex<HashMap<&'static str, Option<Arc<Mat>>>>> = OnceLock::new();
    let m = CACHE.get_or_init(|| Mutex::new(HashMap::new()));
    if let Some(v) = m.lock().unwrap().get(name) {
        return v.clone();
    }
    let n = seed_len * 8;
    let cols = (0..n).map(|i| {
        let e = BitVec::unit(n, i).to_bytes();
        let mut md = RefModel::from_seed(name, &e);
        md.next();
        BitVec::from_bytes(&md.state_bytes().unwrap())
    }).collect();
    let inv = Mat { n, cols }.inverse().map(Arc::new);
    m.lock().unwrap().insert(name, inv.clone());
    inv
}

const AB_STAGES: u64 = 9;
const AB_PATTERNS: u64 = 8;

fn word_bytes(f: Family) -> usize {
    (f.native_bits() / 8) as usize
}

fn case(prop: u32, sub: &str, id: u64, ctx: &Ctx, r: &mut Report) {
    let types = types_of(prop);
    let mut p = Prng::new(id);
    let ti = types[p.below(types.len() as u64) as usize];
    match sub {
        // random / structured seed, short or medium run
        "seedrun" | "longrun" | "deeprun" => {
            with_spec!(ti, S => {
                let (mut class, mut seed) = gen_seed(&mut p, S::SEED_LEN, word_bytes(S::FAMILY), !S::LINEAR);
                // a quarter of the short runs of the linear engines start k steps
                // BEFORE a structured state (pre-image under the reference step)
                if S::LINEAR && sub == "seedrun" && p.chance(1, 4) && !crate::util::REDUCED.load(std::sync::atomic::Ordering::Relaxed) {
                    if let Some(inv) = model_inverse(S::NAME, S::SEED_LEN) {
                        let mut v = crate::models::gf2::BitVec::from_bytes(&seed);
                        for _ in 0..p.range(1, 3) {
                            v = inv.apply(&v);
                        }
                        let s2 = v.to_bytes();
                        if s2.iter().any(|&b| b != 0) {
                            seed = s2;
                            class = "preimage_of_structured";
                        }
                    }
                }
                let n = match (sub, prop) {
                    ("seedrun", 2) => 2100,          // > 2 table cycles, 131 refills
                    ("seedrun", 3) => 600,           // 3 blocks
                    ("seedrun", _) => 64,
                    ("longrun", 2) => 140_000,      // > 136 table cycles (counter-width / wrap slips)
                    ("longrun", 3) => 30_000,
                    ("longrun", _) => 4096,
                    (_, 2) => 1_200_000,
                    (_, 3) => 300_000,
                    (_, _) => 1 << 22,
                };
                // (interpreter / sanitizer runs: no long runs)
                let n = if crate::util::REDUCED.load(std::sync::atomic::Ordering::Relaxed) { n.min(2_500) } else { n };
                let every = if sub == "deeprun" { 1 << 16 } else if n > 64 { 61 } else { 7 };
                if lockstep::<S>(&seed, n, every, true, sub, id, r) {
                    r.distinct(hkey(&[&S::NAME, &seed]));
                    r.cov(&format!("type:{}", S::NAME));
                    r.cov(&format!("seed_class:{}", class));
                    if prop == 2 {
                        for b in 0..((n / 16).min(128)) {
                            r.cov(&format!("hc_block_slot:{}", b % 64));
                        }
                    }
                }
            });
        }
        // BlockRngCore::generate driven directly (C02, C03)
        "core" => {
            with_spec!(ti, S => {
                let (class, seed) = gen_seed(&mut p, S::SEED_LEN, word_bytes(S::FAMILY), true);
                let blocks = if prop == 2 { 140 } else { 3 };
                core_blocks(ti, &seed, blocks, sub, id, r);
                r.distinct(hkey(&[&"core", &S::NAME, &seed]));
                r.cov(&format!("core_type:{}", S::NAME));
                r.cov(&format!("seed_class:{}", class));
            });
        }
        // every seed with a single non-zero byte (enumerated: id = index)
        "single_byte" => {
            let ti = types[(id % types.len() as u64) as usize];
            let k = (id / types.len() as u64) as usize;
            with_spec!(ti, S => {
                let seeds = single_byte_seeds(S::SEED_LEN);
                if k < seeds.len() {
                    let n = if prop == 2 { 1100 } else if prop == 3 { 300 } else { 48 };
                    if lockstep::<S>(&seeds[k], n, 5, true, sub, id, r) {
                        r.distinct(hkey(&[&S::NAME, &seeds[k]]));
                        r.cov("single_byte_seeds");
                    }
                }
            });
        }
        // very many seeds, first block only (C02): rare-seed slips in the key/IV
        // expansion (a checked `+`, a narrow intermediate) at ~1e-5 per seed
        "many_seeds" => {
            let n = if crate::util::REDUCED.load(std::sync::atomic::Ordering::Relaxed) { 20 } else { 25_000 };
            for k in 0..n {
                let mut seed = [0u8; 32];
                if k % 2 == 0 {
                    // counter seeds (little-endian u64 in the first 8 bytes)
                    let sh = p.below(44);
                    seed[..8].copy_from_slice(&(p.u64() >> sh).to_le_bytes());
                } else {
                    p.fill(&mut seed);
                }
                let mut m = crate::models::hc128::Hc128::new(&seed);
                let made = guarded(|| { let mut g = rand_hc::Hc128Rng::from_seed(seed); (0..4).map(|_| g.next_u32()).collect::<Vec<u32>>() });
                r.eval();
                match made {
                    Ok(v) => {
                        let want: Vec<u32> = (0..4).map(|_| m.next()).collect();
                        if v != want {
                            r.violation("Hc128Rng:stream:u32".into(), sub, id, json!({"seed": hex(&seed), "expected": format!("{:08x?}", want), "observed": format!("{:08x?}", v)}));
                            return;
                        }
                    }
                    Err(c) => {
                        r.violation(format!("Hc128Rng:from_seed:{}", c.signature()), sub, id, json!({"seed": hex(&seed)}));
                        return;
                    }
                }
            }
            r.covn("many_seeds", n);
            r.distinct(hkey(&[&"many_seeds", &id]));
        }
        // two generators built back to back from RELATED seeds (word differences that
        // cancel in sums / xors / Fletcher-type checksums): the second must still be
        // the generator of ITS seed
        "related_pair" => {
            with_spec!(ti, S => {
                let (_, x) = gen_seed(&mut p, S::SEED_LEN, 4, true);
                let words = S::SEED_LEN / 4;
                let rd = |s: &[u8], i: usize| u32::from_le_bytes([s[4 * i], s[4 * i + 1], s[4 * i + 2], s[4 * i + 3]]);
                let wr = |s: &mut [u8], i: usize, v: u32| s[4 * i..4 * i + 4].copy_from_slice(&v.to_le_bytes());
                let mut y = x.clone();
                let sh = p.below(31);
                let d = 1 + p.below(1 << sh) as u32;
                let i = p.below(words as u64) as usize;
                let pattern: &[i64] = match p.below(5) { 0 => &[1, -1], 1 => &[1, -2, 1], 2 => &[1, -3, 3, -1], 3 => &[1, 0, -1], _ => &[1, 1] };
                let xor = pattern == [1, 1];
                for (k, c) in pattern.iter().enumerate() {
                    let j = (i + k) % words;
                    let v = rd(&x, j);
                    wr(&mut y, j, if xor { v ^ d } else { v.wrapping_add((*c as i64 * d as i64) as u32) });
                }
                if y != x && (!S::LINEAR || y.iter().any(|&b| b != 0)) && (!S::LINEAR || x.iter().any(|&b| b != 0)) {
                    // the construction just before: from_seed of the related seed, or another
                    // route whose input merely STARTS with the bytes of y (a cache keyed on a
                    // prefix of its input would hand the wrong state to from_seed(y))
                    match p.below(4) {
                        0 => {
                            let mut d = y.clone();
                            d.extend(p.bytes(2100));
                            let _first = <<S as Spec>::R as rand_core::SeedableRng>::from_rng(&mut crate::drive::SourceRng::new(d));
                            r.cov("prefix_related_from_rng");
                        }
                        1 => {
                            let mut d = y.clone();
                            d.extend(p.bytes(2100));
                            let _first = <<S as Spec>::R as rand_core::SeedableRng>::try_from_rng(&mut crate::drive::FallibleSource(crate::drive::SourceRng::new(d)));
                            r.cov("prefix_related_from_rng");
                        }
                        2 => {
                            let x64 = u64::from_le_bytes(y[..8].try_into().unwrap());
                            let _first = <<S as Spec>::R as rand_core::SeedableRng>::seed_from_u64(x64);
                        }
                        _ => {
                            let _first = S::from_seed(&x);
                        }
                    }
                    // second construction right after the first, same thread
                    if lockstep::<S>(&y, 40, 0, true, sub, id, r) {
                        r.cov("related_pairs");
                        r.distinct(hkey(&[&"related_pair", &S::NAME, &x, &y]));
                    }
                }
            });
        }
        // C03: states far into the stream, installed through the crates' own serde
        // implementation: block counter c just below its wrap (reached after 2^32
        // resp. 2^64 refills), arbitrary mem / a / b. The model gets the same fields.
        "crafted" => {
            use crate::models::isaac::{Isaac32, Isaac64};
            let near_wrap = p.below(4);
            if p.chance(1, 2) {
                let mut m = Isaac32 { mm: [0; 256], aa: p.u32(), bb: p.u32(), cc: u32::MAX - near_wrap as u32, rsl: [0; 256], cnt: 0 };
                for w in m.mm.iter_mut() { *w = p.u32(); }
                let mut img = Vec::new();
                for w in m.mm.iter().chain([m.aa, m.bb, m.cc].iter()) { img.extend_from_slice(&w.to_le_bytes()); }
                let made = guarded(|| {
                    let mut core: rand_isaac::isaac::IsaacCore = bincode::deserialize(&img).expect("IsaacCore image");
                    let mut res = <rand_isaac::isaac::IsaacCore as BlockRngCore>::Results::default();
                    let mut out = Vec::new();
                    for _ in 0..6 { core.generate(&mut res); let s: &[u32] = res.as_ref(); out.extend_from_slice(s); }
                    out
                });
                r.eval();
                match made {
                    Ok(out) => {
                        for (k, &w) in out.iter().enumerate() {
                            let want = m.next();
                            if w != want {
                                r.violation("IsaacCore:generate:crafted_state".into(), sub, id, json!({"c": hx32(u32::MAX - near_wrap as u32), "word": k, "expected": hx32(want), "observed": hx32(w)}));
                                return;
                            }
                        }
                    }
                    Err(c) => { r.violation(format!("IsaacCore:generate:{}", c.signature()), sub, id, json!({"c": hx32(u32::MAX - near_wrap as u32), "note": "block counter just below its wrap"})); return; }
                }
                r.cov("crafted:IsaacCore");
            } else {
                let mut m = Isaac64 { mm: [0; 256], aa: p.u64(), bb: p.u64(), cc: u64::MAX - near_wrap, rsl: [0; 256], cnt: 0 };
                for w in m.mm.iter_mut() { *w = p.u64(); }
                let mut img = Vec::new();
                for w in m.mm.iter().chain([m.aa, m.bb, m.cc].iter()) { img.extend_from_slice(&w.to_le_bytes()); }
                let made = guarded(|| {
                    let mut core: rand_isaac::isaac64::Isaac64Core = bincode::deserialize(&img).expect("Isaac64Core image");
                    let mut res = <rand_isaac::isaac64::Isaac64Core as BlockRngCore>::Results::default();
                    let mut out = Vec::new();
                    for _ in 0..6 { core.generate(&mut res); let s: &[u64] = res.as_ref(); out.extend_from_slice(s); }
                    out
                });
                r.eval();
                match made {
                    Ok(out) => {
                        for (k, &w) in out.iter().enumerate() {
                            let want = m.next();
                            if w != want {
                                r.violation("Isaac64Core:generate:crafted_state".into(), sub, id, json!({"c": hx64(u64::MAX - near_wrap), "word": k, "expected": hx64(want), "observed": hx64(w)}));
                                return;
                            }
                        }
                    }
                    Err(c) => { r.violation(format!("Isaac64Core:generate:{}", c.signature()), sub, id, json!({"c": hx64(u64::MAX - near_wrap)})); return; }
                }
                r.cov("crafted:Isaac64Core");
            }
            r.distinct(hkey(&[&"crafted", &id]));
        }
        // seeds aimed at special values of one generator (enumerated: id = index)
        "special" => {
            let ti = types[(id % types.len() as u64) as usize];
            let k = (id / types.len() as u64) as usize;
            with_spec!(ti, S => {
                let seeds = special_seeds(S::NAME, S::SEED_LEN);
                // (the all-zero seed of a linear generator is remapped: C08's subject, excluded by C01/C04)
                if k < seeds.len() && !(S::LINEAR && seeds[k].iter().all(|&b| b == 0)) {
                    let n = if prop == 2 { 1100 } else if prop == 3 { 300 } else { 64 };
                    if lockstep::<S>(&seeds[k], n, 1, true, sub, id, r) {
                        r.distinct(hkey(&[&S::NAME, &seeds[k]]));
                        r.cov("special_seeds");
                    }
                }
            });
        }
        // one state word set to a PRE-IMAGE of a boundary value of an intermediate of the
        // output scrambler (x*5, rotl(x*5,7)*9, x*0x9E3779BB, s_i + s_j, state + gamma):
        // half-word carries, wrapped sums and products that are 0 / 2^h - 1 / 2^h in one
        // half (enumerated: id = index | variant << 32)
        "arith_boundary" => {
            let nt = types.len() as u64;
            let idx = id & 0xffff_ffff;
            let reduced = crate::util::REDUCED.load(std::sync::atomic::Ordering::Relaxed);
            let ti = types[(idx % nt) as usize];
            let k = idx / nt;
            with_spec!(ti, S => {
                let wb = word_bytes(S::FAMILY).min(S::SEED_LEN);
                let nw = (S::SEED_LEN / wb) as u64;
                let word = (k % nw) as usize;
                let stage = (k / nw) % AB_STAGES;
                let pat = (k / nw / AB_STAGES) % AB_PATTERNS;
                let bits = wb as u32 * 8;
                let h = bits / 2;
                let mask = if bits == 64 { u64::MAX } else { (1u64 << bits) - 1 };
                let hm = (1u64 << h) - 1;
                let small = p.below(4);
                let v = match pat {
                    0 => p.u64() & hm,                                   // high half 0
                    1 => (hm << h) | (p.u64() & hm),                     // high half all ones
                    2 => (p.u64() & hm) << h,                            // low half 0
                    3 => ((p.u64() & hm) << h) | hm,                     // low half all ones
                    4 => hm - small,                                     // just below 2^h
                    5 => (1u64 << h) + small,                            // just above 2^h
                    6 => mask - small,                                   // just below 2^bits
                    _ => small,                                          // just above 0
                } & mask;
                let inv = |c: u64| -> u64 { let mut x = c; for _ in 0..6 { x = x.wrapping_mul(2u64.wrapping_sub(c.wrapping_mul(x))); } x & mask };
                let rotr = |x: u64, n: u32| -> u64 { ((x >> n) | (x << (bits - n))) & mask };
                let mul = |a: u64, b: u64| -> u64 { a.wrapping_mul(b) & mask };
                let mut seed = vec![0u8; S::SEED_LEN];
                p.fill(&mut seed);
                let mut others: Option<u64> = None;
                let x = match stage {
                    0 => mul(inv(5), v),                                       // x*5 = v
                    1 => mul(inv(9), v),
                    2 => mul(inv(0x9E37_79BB), v),
                    3 => mul(inv(5), rotr(v, 7)),                              // rotl(x*5, 7) = v
                    4 => mul(inv(5), rotr(mul(inv(9), v), 7)),                 // rotl(x*5, 7)*9 = v
                    5 => mul(inv(0x9E37_79BB), rotr(v, 5)),                    // rotl(x*0x9E3779BB, 5) = v
                    6 => mul(inv(0x9E37_79BB), rotr(mul(inv(5), v), 5)),       // rotl(x*0x9E3779BB, 5)*5 = v
                    7 => v.wrapping_sub(0x9e37_79b9_7f4a_7c15) & mask,         // x + gamma = v
                    _ => {
                        // every sum s_word + s_j = v
                        let x = p.u64() & mask;
                        others = Some(v.wrapping_sub(x) & mask);
                        x
                    }
                };
                let wr = |s: &mut [u8], i: usize, v: u64| { for b in 0..wb { s[i * wb + b] = (v >> (8 * b)) as u8; } };
                if let Some(o) = others {
                    for j in 0..nw as usize { wr(&mut seed, j, o); }
                }
                wr(&mut seed, word, x);
                if !(S::LINEAR && seed.iter().all(|&b| b == 0)) && lockstep::<S>(&seed, if reduced { 3 } else { 6 }, if reduced { 0 } else { 5 }, true, sub, id, r) {
                    r.distinct(hkey(&[&S::NAME, &seed]));
                    r.cov("arith_boundary");
                    r.cov(&format!("arith_boundary_stage:{}", stage));
                }
            });
        }
        // "from every state one step returns the reference output": states REACHED BY
        // jump()/long_jump(), incl. word-coincidence states (c06::coincidence_state), whose
        // image is handed to the reference model — a look-ahead or cache left over from
        // the jump's internal stepping answers for the wrong state
        "post_jump" => {
            let ti = super::c06::JUMP_TYPES[p.below(12) as usize];
            with_spec!(ti, S => {
                if S::HAS_JUMP {
                    let wb = word_bytes(S::FAMILY);
                    let (mut class, mut seed) = gen_seed(&mut p, S::SEED_LEN, wb, false);
                    let mut warm = p.below(4);
                    // (matrix powers are not affordable in interpreter runs)
                    if p.chance(1, 2) && !crate::util::REDUCED.load(std::sync::atomic::Ordering::Relaxed) {
                        let o = super::c06::oracle_for(ti, r);
                        if let Some((v, name)) = super::c06::coincidence_state(&o, S::SEED_LEN, wb, &mut p) {
                            seed = v;
                            class = name;
                            warm = 0;
                        }
                    }
                    let mut rng = S::from_seed(&seed);
                    for _ in 0..warm { rng.next_u64(); }
                    let jumps = p.range(1, 2);
                    let mut how = Vec::new();
                    for _ in 0..jumps {
                        if p.chance(1, 2) { S::long_jump(&mut rng); how.push("long_jump"); } else { S::jump(&mut rng); how.push("jump"); }
                    }
                    if let Some(img) = S::bincode(&rng) {
                        if img.iter().any(|&b| b != 0) {
                            let mut model = RefModel::from_seed(S::NAME, &img);
                            for k in 0..4 {
                                let (got, want) = match S::FAMILY {
                                    Family::W32 => (rng.next_u32() as u64, model.next()),
                                    _ => (rng.next_u64(), model.next()),
                                };
                                r.eval();
                                if got != want {
                                    r.violation(format!("{}:output_after_jump", S::NAME), sub, id, json!({
                                        "type": S::NAME, "seed": hex(&seed), "seed_class": class, "outputs_before": warm, "then": how,
                                        "state_after_jump(image)": hex(&img), "position_after_jump": k,
                                        "expected(reference from that state)": hx64(want), "observed": hx64(got)}));
                                    return;
                                }
                            }
                            r.cov("post_jump");
                            r.cov(&format!("post_jump_class:{}", if class.starts_with("coincidence") { "coincidence" } else { "other" }));
                            r.distinct(hkey(&[&"post_jump", &S::NAME, &seed]));
                        }
                    }
                }
            });
        }
        // mixed-width access against the MODEL's word stream: next_u32 / next_u64 /
        // fill_bytes with large and unaligned destinations (bulk paths)
        "mixed" => {
            use super::c05::{apply, PFam, Proj};
            use crate::drive::Op;
            with_spec!(ti, S => {
                let (class, seed) = gen_seed(&mut p, S::SEED_LEN, word_bytes(S::FAMILY), !S::LINEAR);
                let mut model = RefModel::from_seed(S::NAME, &seed);
                let mut rng = S::from_seed(&seed);
                let mut proj = Proj::new(PFam::from(S::FAMILY));
                let mut words: Vec<u64> = Vec::new();
                let bb = S::FAMILY.block_words() * word_bytes(S::FAMILY);
                let mut ops = Vec::new();
                for _ in 0..p.range(4, 16) {
                    let op = match p.below(10) {
                        0..=2 => Op::U32,
                        3..=4 => Op::U64,
                        5..=6 => Op::Fill(p.below(70) as usize),
                        _ => Op::Fill(*p.pick(&[bb - 1, bb, bb + 1, 2 * bb, 1023, 1024, 1025, 1100, 2047, 2048, 2049, 2100, 4096, 4097, 5000, 3 * bb + 7])),
                    };
                    if p.chance(1, 6) {
                        rng = rng.clone();
                    }
                    let want = proj.expect(&op, &mut |k| { while words.len() <= k { words.push(model.next()); } words[k] });
                    let got = apply(&mut rng, &op);
                    ops.push(op.clone());
                    r.eval();
                    if got != want {
                        r.violation(format!("{}:mixed_access_vs_model", S::NAME), sub, id, json!({
                            "type": S::NAME, "seed": hex(&seed), "ops": crate::drive::show_ops(&ops),
                            "expected": want.show(), "observed": got.show(), "stream_position_after": proj.pos}));
                        return;
                    }
                }
                r.distinct(hkey(&[&"mixed", &S::NAME, &seed, &crate::drive::show_ops(&ops)]));
                r.cov(&format!("mixed:{}", S::NAME));
                r.cov(&format!("seed_class:{}", class));
            });
        }
        // exhaustive short operation sequences around the block boundary, checked
        // against the MODEL's word stream: id = ((type slot * 8 + start*2 + half) << 20) | sequence
        "model_boundary" => {
            use super::c05::{apply, boundary_alphabet, boundary_sequence, PFam, Proj};
            use crate::drive::Op;
            let ti = types[((id >> 24) as usize) % types.len()];
            let start_slot = ((id >> 21) & 7) as usize;
            let half = (id >> 20) & 1 == 1;
            let seq = id & 0xfffff;
            with_spec!(ti, S => {
                let fam = PFam::from(S::FAMILY);
                let a = boundary_alphabet(fam).len() as u64;
                let bw = S::FAMILY.block_words();
                let starts = [bw.saturating_sub(2).max(1), bw.saturating_sub(1).max(1), bw, 0, 1];
                if seq < a * a * a && start_slot < starts.len() && (!half || matches!(fam, PFam::Block64(_))) {
                    let mut q = Prng::new(id ^ 0x5eed);
                    let seed = q.bytes(S::SEED_LEN);
                    let mut model = RefModel::from_seed(S::NAME, &seed);
                    let mut rng = S::from_seed(&seed);
                    let mut words: Vec<u64> = Vec::new();
                    let mut proj = Proj::new(fam);
                    let native = if matches!(fam, PFam::Block64(_)) { Op::U64 } else { Op::U32 };
                    let mut ops: Vec<Op> = vec![native; starts[start_slot]];
                    if half { ops.push(Op::U32); }
                    ops.extend(boundary_sequence(fam, 3, seq));
                    ops.push(Op::U32);
                    ops.push(Op::U64);
                    let clone_at = starts[start_slot] + half as usize + (seq % 4) as usize;
                    for (i, op) in ops.iter().enumerate() {
                        if i == clone_at {
                            rng = rng.clone(); // at the boundary position, possibly with a half word pending
                        }
                        let want = proj.expect(op, &mut |k| { while words.len() <= k { words.push(model.next()); } words[k] });
                        let got = apply(&mut rng, op);
                        r.eval();
                        if got != want {
                            r.violation(format!("{}:boundary_sequence_vs_model", S::NAME), sub, id, json!({
                                "type": S::NAME, "seed": hex(&seed), "native_words_first": starts[start_slot], "half_word_read": half,
                                "ops_after": crate::drive::show_ops(&ops[starts[start_slot]..=i]), "expected": want.show(), "observed": got.show()}));
                            return;
                        }
                    }
                    r.cov(&format!("model_boundary:{}", S::NAME));
                    r.distinct(hkey(&[&"model_boundary", &S::NAME, &id]));
                }
            });
        }
        // one generator stepped 2^32 + 8 times (position counters narrower than
        // the period, wrap of any 32-bit bookkeeping); state image at the end
        "wrap32" => {
            with_spec!(ti, S => {
                let (_, seed) = gen_seed(&mut p, S::SEED_LEN, word_bytes(S::FAMILY), !S::LINEAR);
                let n: u64 = (1u64 << 32) + 8;
                let mut model = RefModel::from_seed(S::NAME, &seed);
                let mut rng = S::from_seed(&seed);
                let mut k = 0u64;
                while k < n {
                    let (a, b) = match S::FAMILY {
                        Family::W32 | Family::Block32(_) => (rng.next_u32() as u64, model.next()),
                        _ => (rng.next_u64(), model.next()),
                    };
                    if a != b {
                        r.violation(format!("{}:stream:after_2^32_steps", S::NAME), sub, id,
                            json!({"type": S::NAME, "seed": hex(&seed), "position": k.to_string(), "expected": hx64(b), "observed": hx64(a)}));
                        return;
                    }
                    k += 1;
                }
                r.evals(n);
                r.cov(&format!("wrap32:{}", S::NAME));
                r.distinct(hkey(&[&"wrap32", &S::NAME, &seed]));
            });
        }
        // C03: seed_from_u64(0) reproduces the reference generator used unseeded
        "unseeded" => {
            use crate::models::isaac::{Isaac32, Isaac64};
            let mut m = Isaac32::randinit(&[], 1);
            let mut g = rand_isaac::IsaacRng::seed_from_u64(0);
            for k in 0..1024 {
                r.eval();
                let (a, b) = (g.next_u32(), m.next());
                if a != b {
                    r.violation("IsaacRng:seed_from_u64(0)!=unseeded_reference".into(), sub, id,
                        json!({"position": k, "expected": hx32(b), "observed": hx32(a)}));
                    break;
                }
            }
            let mut m = Isaac64::randinit(&[], 1);
            let mut g = rand_isaac::Isaac64Rng::seed_from_u64(0);
            for k in 0..1024 {
                r.eval();
                let (a, b) = (g.next_u64(), m.next());
                if a != b {
                    r.violation("Isaac64Rng:seed_from_u64(0)!=unseeded_reference".into(), sub, id,
                        json!({"position": k, "expected": hx64(b), "observed": hx64(a)}));
                    break;
                }
            }
            r.cov("unseeded_reference");
            r.distinct(hkey(&[&"unseeded"]));
        }
        // BlockRng<Hc128Core> built by hand equals Hc128Rng (same stream via the wrapper)
        "wrapper" if prop == 3 => {
            // hand-built BlockRng / BlockRng64 around the public cores equal the Rng types
            use rand_core::block::BlockRng64;
            let seed: [u8; 32] = p.bytes(32).try_into().unwrap();
            let mut a = rand_isaac::IsaacRng::from_seed(seed);
            let mut b = BlockRng::new(rand_isaac::isaac::IsaacCore::from_seed(seed));
            let mut c = rand_isaac::Isaac64Rng::from_seed(seed);
            let mut d = BlockRng64::new(rand_isaac::isaac64::Isaac64Core::from_seed(seed));
            for k in 0..700 {
                r.eval();
                let (x, y) = if k % 3 == 0 { (a.next_u64(), b.next_u64()) } else { (a.next_u32() as u64, b.next_u32() as u64) };
                let (u, v) = if k % 3 == 1 { (c.next_u32() as u64, d.next_u32() as u64) } else { (c.next_u64(), d.next_u64()) };
                if x != y || u != v {
                    r.violation("IsaacRng!=BlockRng<IsaacCore>".into(), sub, id, json!({"seed": hex(&seed), "position": k}));
                    break;
                }
            }
            r.distinct(hkey(&[&"wrapper", &seed[..].to_vec()]));
        }
        "wrapper" => {
            let seed = p.bytes(32);
            let mut a = rand_hc::Hc128Rng::from_seed(seed.clone().try_into().unwrap());
            let mut b = BlockRng::<rand_hc::Hc128Core>::from_seed(seed.clone().try_into().unwrap());
            for k in 0..200 {
                r.eval();
                let (x, y) = (a.next_u32(), b.next_u32());
                if x != y {
                    r.violation("Hc128Rng!=BlockRng<Hc128Core>".into(), sub, id,
                        json!({"seed": hex(&seed), "position": k}));
                    break;
                }
            }
            r.distinct(hkey(&[&"wrapper", &seed]));
        }
        _ => r.inconclusive(format!("unknown sub-monitor {} for {}", sub, pid(prop))),
    }
    let _ = ctx;
}

pub fn run(prop: u32, ctx: &Ctx, only: Option<&Only>) -> Report {
    if let Some(o) = only {
        let mut r = Report::new();
        case(prop, o.sub, o.id, ctx, &mut r);
        return r;
    }
    let types = types_of(prop);
    let nt = types.len() as u64;
    let mut total = Report::new();
    ctx.progress("single_byte / special");
    // enumerated single-byte seeds (largest seed is 64 bytes => 192 per type)
    let max_seed = 64 * 3;
    total.merge(crate::util::par(ctx.threads, |t, r| {
        let mut k = t as u64;
        while k < nt * max_seed {
            if ctx.keep(k) {
                case(prop, "single_byte", k, ctx, r);
                if k < nt * 64 {
                    case(prop, "special", k, ctx, r);
                }
            }
            k += ctx.threads as u64;
        }
    }));
    let (q_seed, q_long) = match prop {
        1 => (45_000, 3_000),
        2 => (2_000, 50),
        3 => (6_000, 100),
        _ => (20_000, 1_000),
    };
    let secs = if ctx.tier_thorough { ctx.budget_s } else { 0.0 };
    total.merge(drive(ctx, "seedrun", q_seed, secs * 0.5, |id, r| case(prop, "seedrun", id, ctx, r)));
    total.merge(drive(ctx, "longrun", q_long, secs * 0.25, |id, r| case(prop, "longrun", id, ctx, r)));
    if ctx.tier_thorough {
        total.merge(drive(ctx, "deeprun", 16, secs * 0.15, |id, r| case(prop, "deeprun", id, ctx, r)));
    }
    total.merge(drive(ctx, "mixed", ctx.n(6_000, 6_000), secs * 0.1, |id, r| case(prop, "mixed", id, ctx, r)));
    total.merge(drive(ctx, "related_pair", ctx.n(4_000, 4_000), secs * 0.02, |id, r| case(prop, "related_pair", id, ctx, r)));
    if prop == 2 {
        // 64 x 25 000 seeds in the quick tier
        total.merge(drive(ctx, "many_seeds", 64, secs * 0.1, |id, r| case(prop, "many_seeds", id, ctx, r)));
    }
    if prop == 1 {
        total.merge(drive(ctx, "post_jump", ctx.n(6_000, 6_000), secs * 0.05, |id, r| case(prop, "post_jump", id, ctx, r)));
        total.floor("post_jump", 1_000);
        total.floor("post_jump_class:coincidence", 500);
    }
    ctx.progress("arith_boundary / wrap32 / model_boundary");
    if prop == 1 {
        // scrambler-intermediate boundary pre-images: every (type, word, stage, pattern);
        // interpreter shards split the list between them instead of thinning it
        let reduced = crate::util::REDUCED.load(std::sync::atomic::Ordering::Relaxed);
        let variants: u64 = if reduced { 1 } else { 4 };
        total.merge(crate::util::par(ctx.threads, |t, r| {
            let n = nt * 8 * AB_STAGES * AB_PATTERNS;
            for var in 0..variants {
                let variant = ctx.seed.wrapping_mul(4).wrapping_add(var) & 0xffff_ffff;
                let mut k = t as u64;
                while k < n {
                    if !reduced || k % 16 == ctx.seed % 16 {
                        if reduced && (k / 16) % 100 == 0 { ctx.progress(&format!("arith_boundary {}/{}", k, n)); }
                        let id = k | (variant << 32);
                        super::run_case("arith_boundary", id, r, &|id, r: &mut Report| case(prop, "arith_boundary", id, ctx, r));
                    }
                    k += ctx.threads as u64;
                }
            }
        }));
        total.floor("arith_boundary", 1_000);
    }
    // 2^32-step runs: XorShiftRng always (about 10 s on one core); every other
    // small generator in the thorough tier, one thread per type
    if ctx.scale >= 1.0 && ctx.tier_thorough && (prop == 4 || prop == 1) {
        let types = types_of(prop);
        total.merge(crate::util::par(types.len(), |t, r| {
            // id chosen so that `case` picks type number t
            let mut id = ctx.seed.wrapping_mul(0x9e3779b97f4a7c15).wrapping_add(t as u64);
            while Prng::new(id).below(types.len() as u64) as usize != t { id = id.wrapping_add(0x1000); }
            super::run_case("wrap32", id, r, &|id, r: &mut Report| case(prop, "wrap32", id, ctx, r));
        }));
    }
    if prop == 2 || prop == 3 {
        // every 3-operation sequence over the boundary alphabet from 5 start positions
        let types = types_of(prop);
        total.merge(crate::util::par(ctx.threads, |t, r| {
            let mut k = 0u64;
            for slot in 0..types.len() as u64 {
                for start in 0..5u64 {
                    for half in 0..2u64 {
                        for seq in 0..(14u64 * 14 * 14) {
                            if k % ctx.threads as u64 == t as u64 && ctx.keep(k) {
                                let id = (slot << 24) | (start << 21) | (half << 20) | seq;
                                super::run_case("model_boundary", id, r, &|id, r: &mut Report| case(prop, "model_boundary", id, ctx, r));
                            }
                            k += 1;
                        }
                    }
                }
            }
        }));
        total.merge(drive(ctx, "core", ctx.n(400, 4_000), secs * 0.1, |id, r| case(prop, "core", id, ctx, r)));
    }
    if prop == 3 {
        total.merge(drive(ctx, "wrapper", 64, 0.0, |id, r| case(prop, "wrapper", id, ctx, r)));
        total.merge(drive(ctx, "crafted", 400, 0.0, |id, r| case(prop, "crafted", id, ctx, r)));
    }
    if prop == 2 {
        total.merge(drive(ctx, "wrapper", 64, 0.0, |id, r| case(prop, "wrapper", id, ctx, r)));
        for b in 0..64 {
            total.floor(&format!("hc_block_slot:{}", b), 1);
            total.floor(&format!("hc_core_block_slot:{}", b), 1);
        }
    }
    if prop == 3 {
        case(prop, "unseeded", 0, ctx, &mut total);
        total.floor("unseeded_reference", 1);
    }
    for &ti in &types {
        total.floor(&format!("type:{}", TYPE_NAMES[ti]), 10);
    }
    total.floor("single_byte_seeds", 20);
    total.floor("related_pairs", 1_000);
    total.floor("prefix_related_from_rng", 300);
    if prop == 3 {
        total.floor("crafted:IsaacCore", 50);
        total.floor("crafted:Isaac64Core", 50);
    }
    if prop == 2 {
        total.floor("many_seeds", 1_000_000);
        total.floor("generate_into_lookahead_buffer", 100);
    }
    total.floor("special_seeds", 4);
    total
}
