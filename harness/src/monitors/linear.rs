//! Shared by C06 and C07: the GF(2) transition matrix of a linear engine as
//! *observed* from single steps of the real code, and the linearity monitor
//! that justifies extending basis observations to all states.

use crate::models::gf2::{BitVec, Mat};
use crate::specs::*;
use crate::util::*;
use rand_core::RngCore;
use serde_json::json;

/// put the generator into an arbitrary state (zero included) through serde
pub fn inject<S: Spec>(state: &[u8]) -> S::R {
    S::from_bincode(state).expect("serde type").expect("state image deserialises")
}
pub fn image<S: Spec>(g: &S::R) -> Vec<u8> {
    S::bincode(g).expect("serde type")
}
pub fn native_step<S: Spec>(g: &mut S::R) -> u64 {
    match S::FAMILY {
        Family::W32 => g.next_u32() as u64,
        _ => g.next_u64(),
    }
}
/// successor state of `state` under one real native step
pub fn step_image<S: Spec>(state: &[u8]) -> Vec<u8> {
    let mut g = inject::<S>(state);
    let _ = native_step::<S>(&mut g);
    image::<S>(&g)
}

/// Column i = real successor of basis state e_i. Also returns the successor of
/// the zero state (must be zero for a linear map).
pub fn observe_matrix<S: Spec>(r: &mut Report) -> (Mat, BitVec) {
    let n = S::SEED_LEN * 8;
    let mut cols = Vec::with_capacity(n);
    for i in 0..n {
        let e = BitVec::unit(n, i);
        cols.push(BitVec::from_bytes(&step_image::<S>(&e.to_bytes())));
        r.eval();
    }
    let z = BitVec::from_bytes(&step_image::<S>(&vec![0u8; S::SEED_LEN]));
    r.eval();
    (Mat { n, cols }, z)
}

/// Random executions of the real step must agree with the matrix prediction:
/// step(a ^ b) = T·a ^ T·b and step(s) = T·s. Returns the number of
/// observations; reports a violation-independent "nonlinear" witness via Err.
pub fn linearity_monitor<S: Spec>(t: &Mat, samples: u64, p: &mut Prng, r: &mut Report) -> Result<u64, serde_json::Value> {
    let mut seen = 0;
    for k in 0..samples {
        let (_, a) = crate::drive::gen_seed(p, S::SEED_LEN, (S::FAMILY.native_bits() / 8) as usize, true);
        let (_, b) = crate::drive::gen_seed(p, S::SEED_LEN, (S::FAMILY.native_bits() / 8) as usize, true);
        let ab: Vec<u8> = a.iter().zip(b.iter()).map(|(x, y)| x ^ y).collect();
        let real = step_image::<S>(&ab);
        let mut pred = t.apply(&BitVec::from_bytes(&a));
        pred.xor_in(&t.apply(&BitVec::from_bytes(&b)));
        r.eval();
        seen += 1;
        if pred.to_bytes() != real {
            return Err(json!({"type": S::NAME, "a": hex(&a), "b": hex(&b), "real_step_of_a_xor_b": hex(&real),
                              "matrix_prediction": hex(&pred.to_bytes()), "sample": k}));
        }
    }
    Ok(seen)
}
