//! C05: next_u32 / next_u64 / fill_bytes are projections of one forward-only
//! native word stream. History checker: a twin (same seed, native-width calls
//! only) supplies the word stream; a projection model consumes it.

use super::{drive, Only};
use crate::drive::*;
use crate::specs::*;
use crate::util::*;
use crate::with_spec;
use rand_core::RngCore;
use serde_json::json;

#[derive(Clone, Copy, Debug, PartialEq, Eq)]
pub enum PFam {
    W32,
    W64Hi,
    W64Lo,
    SplitMix,
    Block32(usize),
    Block64(usize),
    Jitter,
}

impl From<Family> for PFam {
    fn from(f: Family) -> PFam {
        match f {
            Family::W32 => PFam::W32,
            Family::W64Hi => PFam::W64Hi,
            Family::W64Lo => PFam::W64Lo,
            Family::SplitMix => PFam::SplitMix,
            Family::Block32(n) => PFam::Block32(n),
            Family::Block64(n) => PFam::Block64(n),
        }
    }
}

#[derive(Debug, Clone, PartialEq, Eq)]
pub enum Out {
    U32(u32),
    U64(u64),
    Bytes(Vec<u8>),
}
impl Out {
    pub fn show(&self) -> String {
        match self {
            Out::U32(v) => hx32(*v),
            Out::U64(v) => hx64(*v),
            Out::Bytes(b) => {
                if b.len() > 48 {
                    format!("{}…({} bytes)", hex(&b[..48]), b.len())
                } else {
                    hex(b)
                }
            }
        }
    }
}

/// The documented projections (table in DESIGN §C05). `pos` = native words
/// consumed so far; `pending` = word whose high half the next `next_u32` returns.
pub struct Proj {
    pub fam: PFam,
    pub pos: usize,
    pub pending: Option<u64>,
}

impl Proj {
    pub fn new(fam: PFam) -> Self {
        Proj { fam, pos: 0, pending: None }
    }
    fn u32(&mut self, w: &mut dyn FnMut(usize) -> u64) -> u32 {
        match self.fam {
            PFam::W32 | PFam::Block32(_) => {
                let v = w(self.pos) as u32;
                self.pos += 1;
                v
            }
            PFam::W64Hi => {
                let v = (w(self.pos) >> 32) as u32;
                self.pos += 1;
                v
            }
            PFam::W64Lo => {
                let v = w(self.pos) as u32;
                self.pos += 1;
                v
            }
            PFam::SplitMix => {
                // same counter step, 32-bit finalizer: recover the counter of
                // the twin's word and apply Mix4
                let c = crate::models::vigna::SplitMix::unfin64(w(self.pos));
                self.pos += 1;
                crate::models::vigna::SplitMix::fin32(c)
            }
            PFam::Block64(_) | PFam::Jitter => {
                if let Some(word) = self.pending.take() {
                    (word >> 32) as u32
                } else {
                    let word = w(self.pos);
                    self.pos += 1;
                    self.pending = Some(word);
                    word as u32
                }
            }
        }
    }
    fn u64(&mut self, w: &mut dyn FnMut(usize) -> u64) -> u64 {
        match self.fam {
            PFam::W32 | PFam::Block32(_) => {
                let lo = w(self.pos) & 0xffff_ffff;
                let hi = w(self.pos + 1) & 0xffff_ffff;
                self.pos += 2;
                (hi << 32) | lo
            }
            _ => {
                self.pending = None;
                let v = w(self.pos);
                self.pos += 1;
                v
            }
        }
    }
    fn fill(&mut self, n: usize, w: &mut dyn FnMut(usize) -> u64) -> Vec<u8> {
        let mut out = Vec::with_capacity(n);
        match self.fam {
            PFam::Block32(_) => {
                while out.len() < n {
                    let v = (w(self.pos) as u32).to_le_bytes();
                    self.pos += 1;
                    let take = (n - out.len()).min(4);
                    out.extend_from_slice(&v[..take]);
                }
            }
            PFam::Block64(_) => {
                self.pending = None; // also for n = 0
                while out.len() < n {
                    let v = w(self.pos).to_le_bytes();
                    self.pos += 1;
                    let take = (n - out.len()).min(8);
                    out.extend_from_slice(&v[..take]);
                }
            }
            _ => {
                let mut left = n;
                while left >= 8 {
                    out.extend_from_slice(&self.u64(w).to_le_bytes());
                    left -= 8;
                }
                if left > 4 {
                    out.extend_from_slice(&self.u64(w).to_le_bytes()[..left]);
                } else if left > 0 {
                    out.extend_from_slice(&self.u32(w).to_le_bytes()[..left]);
                }
            }
        }
        out
    }
    pub fn expect(&mut self, op: &Op, w: &mut dyn FnMut(usize) -> u64) -> Out {
        match op {
            Op::U32 => Out::U32(self.u32(w)),
            Op::U64 => Out::U64(self.u64(w)),
            Op::Fill(n) => Out::Bytes(self.fill(*n, w)),
            _ => unreachable!(),
        }
    }
    /// bytes left in the current block before this op (0 when unbuffered)
    pub fn left_in_block(&self) -> usize {
        match self.fam {
            PFam::Block32(n) => (n - self.pos % n) % n * 4,
            PFam::Block64(n) => (n - self.pos % n) % n * 8,
            _ => 0,
        }
    }
}

thread_local! {
    static DEST_OFFSET: std::cell::Cell<usize> = std::cell::Cell::new(0);
}

pub fn apply<R: RngCore>(g: &mut R, op: &Op) -> Out {
    match op {
        Op::U32 => Out::U32(g.next_u32()),
        Op::U64 => Out::U64(g.next_u64()),
        Op::Fill(n) => {
            // the destination slice starts at every alignment 0..7 in turn, and
            // is surrounded by guard bytes that must stay untouched
            let off = DEST_OFFSET.with(|c| { let v = c.get(); c.set((v + 3) % 8); v });
            let mut b = vec![0xEEu8; *n + 16];
            g.fill_bytes(&mut b[off..off + *n]);
            assert!(b[..off].iter().all(|&x| x == 0xEE) && b[off + *n..].iter().all(|&x| x == 0xEE), "fill_bytes wrote outside its destination");
            Out::Bytes(b[off..off + *n].to_vec())
        }
        _ => unreachable!(),
    }
}

/// replace a generator by its own clone in place (no-op for JitterRng, whose
/// clone deliberately drops the pending half — C16's subject)
pub trait MaybeCloneSplice {
    fn splice_clone(&mut self);
}
impl<F> MaybeCloneSplice for rand_jitter::JitterRng<F> {
    fn splice_clone(&mut self) {}
}
macro_rules! splice_impl {
    ($($t:ty),*) => { $(impl MaybeCloneSplice for $t { fn splice_clone(&mut self) { let c = self.clone(); *self = c; } })* };
}
splice_impl!(rand_xoshiro::Xoroshiro64Star, rand_xoshiro::Xoroshiro64StarStar, rand_xoshiro::Xoroshiro128Plus,
    rand_xoshiro::Xoroshiro128PlusPlus, rand_xoshiro::Xoroshiro128StarStar, rand_xoshiro::Xoshiro128Plus,
    rand_xoshiro::Xoshiro128PlusPlus, rand_xoshiro::Xoshiro128StarStar, rand_xoshiro::Xoshiro256Plus,
    rand_xoshiro::Xoshiro256PlusPlus, rand_xoshiro::Xoshiro256StarStar, rand_xoshiro::Xoshiro512Plus,
    rand_xoshiro::Xoshiro512PlusPlus, rand_xoshiro::Xoshiro512StarStar, rand_xoshiro::SplitMix64,
    rand_xorshift::XorShiftRng, rand_hc::Hc128Rng, rand_isaac::IsaacRng, rand_isaac::Isaac64Rng);

/// lazily extended native word stream of a twin
pub struct Twin<F: FnMut() -> u64> {
    pub words: Vec<u64>,
    pub next: F,
}
impl<F: FnMut() -> u64> Twin<F> {
    pub fn word(&mut self, k: usize) -> u64 {
        while self.words.len() <= k {
            let v = (self.next)();
            self.words.push(v);
        }
        self.words[k]
    }
}

fn native<R: RngCore>(g: &mut R, fam: PFam) -> u64 {
    match fam {
        PFam::W32 | PFam::Block32(_) => g.next_u32() as u64,
        _ => g.next_u64(),
    }
}

struct HistStats {
    straddle_u64: bool,
    straddle_fill: bool,
}

/// Run one history against the projection model. `real` and `twin_next` must
/// come from identical seeds / timers. Returns Err(detail) on divergence.
fn check_history<R: RngCore + MaybeCloneSplice>(
    name: &str,
    fam: PFam,
    real: &mut R,
    twin_next: &mut dyn FnMut() -> u64,
    pre_skip: usize,
    next_op: &mut dyn FnMut(usize, &Proj) -> Option<Op>,
    r: &mut Report,
) -> Result<(Vec<Op>, HistStats), serde_json::Value> {
    let mut twin = Twin { words: Vec::new(), next: twin_next };
    let mut proj = Proj::new(fam);
    let mut st = HistStats { straddle_u64: false, straddle_fill: false };
    // pre-skip with native calls so that every buffer index is a starting point
    for k in 0..pre_skip {
        let got = native(real, fam);
        let want = twin.word(k);
        r.eval();
        if got != want {
            return Err(json!({"phase": "pre_skip", "position": k, "expected": hx64(want), "observed": hx64(got)}));
        }
        proj.pos += 1;
    }
    let mut ops = Vec::new();
    let mut i = 0usize;
    while let Some(op) = next_op(i, &proj) {
        let pos_before = proj.pos;
        let pending_before = proj.pending.is_some();
        // the stream continues unchanged across clone() (deterministic generators)
        if i % 5 == 3 {
            real.splice_clone();
        }
        let want = proj.expect(&op, &mut |k| twin.word(k));
        let got = apply(real, &op);
        r.eval();
        // coverage bookkeeping
        match (&op, fam) {
            (Op::Fill(n), _) => {
                r.cov(&format!("{}:fill_tail:{}", name, n % 8));
                if *n == 0 {
                    r.cov(&format!("{}:fill0", name));
                }
                if let PFam::Block32(b) | PFam::Block64(b) = fam {
                    if pos_before / b != (proj.pos.max(1) - 1) / b && pos_before % b != 0 {
                        st.straddle_fill = true;
                    }
                }
            }
            (Op::U64, PFam::Block32(b)) => {
                if pos_before % b == b - 1 {
                    st.straddle_u64 = true;
                }
            }
            (Op::U32, PFam::Block64(_)) | (Op::U32, PFam::Jitter) => {
                if pending_before {
                    r.cov(&format!("{}:u32_high_half", name));
                }
            }
            _ => {}
        }
        ops.push(op.clone());
        if got != want {
            return Err(json!({
                "phase": "history", "op_index": i, "op": op.show(),
                "stream_position_before": pos_before, "half_pending_before": pending_before,
                "expected": want.show(), "observed": got.show(), "ops": show_ops(&ops),
            }));
        }
        i += 1;
    }
    // conservation: the real generator is exactly where the model says
    proj.pending = None;
    for k in 0..4 {
        let got = native(real, fam);
        let want = twin.word(proj.pos + k);
        r.eval();
        if got != want {
            return Err(json!({
                "phase": "conservation", "after_ops": show_ops(&ops), "model_position": proj.pos,
                "next_word_index": k, "expected": hx64(want), "observed": hx64(got),
            }));
        }
    }
    Ok((ops, st))
}

fn block_bytes_of(fam: PFam) -> usize {
    match fam {
        PFam::Block32(n) => n * 4,
        PFam::Block64(n) => n * 8,
        _ => 8,
    }
}

/// operation alphabet for the exhaustive short-sequence enumeration around
/// block boundaries; B = block size in bytes (8 for unbuffered generators)
pub fn boundary_alphabet(fam: PFam) -> Vec<Op> {
    let b = block_bytes_of(fam);
    let mut v = vec![Op::U32, Op::U64, Op::Fill(0), Op::Fill(1), Op::Fill(3), Op::Fill(4), Op::Fill(5), Op::Fill(8), Op::Fill(12)];
    if b > 8 {
        for n in [b - 1, b, b + 1, 2 * b, 2 * b + 4] {
            v.push(Op::Fill(n));
        }
    }
    v
}

/// every operation sequence of length `len` over the alphabet (index = id)
pub fn boundary_sequence(fam: PFam, len: usize, mut id: u64) -> Vec<Op> {
    let a = boundary_alphabet(fam);
    (0..len).map(|_| { let k = (id % a.len() as u64) as usize; id /= a.len() as u64; a[k].clone() }).collect()
}

fn boundary_case<S: Spec>(sub: &str, id: u64, r: &mut Report)
where
    S::R: MaybeCloneSplice,
{
    // id = ((start_slot * 2 + half) * A^3) + sequence index; start positions:
    // two words before the block end, one before, exhausted, fresh, one into it
    let fam: PFam = S::FAMILY.into();
    let a = boundary_alphabet(fam).len() as u64;
    let seqs = a * a * a;
    let seq_idx = id % seqs;
    let rest = id / seqs;
    let half = rest % 2 == 1;
    let slot = (rest / 2) as usize;
    let bw = S::FAMILY.block_words();
    let starts = [bw.saturating_sub(2).max(1), bw.saturating_sub(1).max(1), bw, 0, 1];
    if slot >= starts.len() || (half && !matches!(fam, PFam::Block64(_))) || (bw == 1 && slot > 0) {
        return;
    }
    let mut p = Prng::new(id ^ 0xb0b0);
    let seed = p.bytes(S::SEED_LEN);
    let mut real = S::from_seed(&seed);
    let mut twin = S::from_seed(&seed);
    let mut ops = boundary_sequence(fam, 3, seq_idx);
    if half {
        ops.insert(0, Op::U32); // leaves the high half of a word pending
    }
    let mut tn = || native(&mut twin, fam);
    let mut gen = |i: usize, _: &Proj| ops.get(i).cloned();
    match check_history(S::NAME, fam, &mut real, &mut tn, starts[slot], &mut gen, r) {
        Ok((ops, _)) => {
            r.distinct(hkey(&[&"boundary", &S::NAME, &starts[slot], &show_ops(&ops)]));
            r.cov(&format!("boundary:{}", S::NAME));
        }
        Err(mut d) => {
            d["type"] = json!(S::NAME);
            d["seed"] = json!(hex(&seed));
            d["pre_skip"] = json!(starts[slot]);
            let sig = format!("{}:projection:{}:{}", S::NAME, d["phase"].as_str().unwrap_or("?"),
                d["op"].as_str().map(|s| s.split('(').next().unwrap_or(s).to_string()).unwrap_or_default());
            r.violation(sig, sub, id, d);
        }
    }
}

/// JitterRng: every sequence of length 4 over {u32, u64, fill(0|3|4|5|8|12)}
fn jitter_boundary_case(sub: &str, id: u64, r: &mut Report) {
    let alphabet = [Op::U32, Op::U64, Op::Fill(0), Op::Fill(3), Op::Fill(4), Op::Fill(5), Op::Fill(8), Op::Fill(12)];
    let mut k = id;
    let ops: Vec<Op> = (0..4).map(|_| { let o = alphabet[(k % 8) as usize].clone(); k /= 8; o }).collect();
    if k > 0 {
        return;
    }
    let mut p = Prng::new(id ^ 0x1771);
    let readings = gen_script(&mut p, 0, 400);
    let tail = p.u64();
    let t_real = ScriptedTimer::new(readings.clone(), tail);
    let t_twin = ScriptedTimer::new(readings, tail);
    let mut real = rand_jitter::JitterRng::new_with_timer(t_real.closure());
    let mut twin = rand_jitter::JitterRng::new_with_timer(t_twin.closure());
    real.set_rounds(1);
    twin.set_rounds(1);
    let mut tn = || twin.next_u64();
    let mut gen = |i: usize, _: &Proj| ops.get(i).cloned();
    match check_history("JitterRng", PFam::Jitter, &mut real, &mut tn, 0, &mut gen, r) {
        Ok((ops, _)) => {
            r.distinct(hkey(&[&"boundary", &"JitterRng", &show_ops(&ops)]));
            r.cov("boundary:JitterRng");
        }
        Err(mut d) => {
            d["type"] = json!("JitterRng");
            let sig = format!("JitterRng:projection:{}:{}", d["phase"].as_str().unwrap_or("?"),
                d["op"].as_str().map(|s| s.split('(').next().unwrap_or(s).to_string()).unwrap_or_default());
            r.violation(sig, sub, id, d);
        }
    }
}

fn word_bytes(f: Family) -> usize {
    (f.native_bits() / 8) as usize
}

fn seeded_case<S: Spec>(sub: &str, id: u64, pre_skip_forced: Option<usize>, r: &mut Report)
where
    S::R: MaybeCloneSplice,
{
    let mut p = Prng::new(id);
    let fam: PFam = S::FAMILY.into();
    let (class, seed) = gen_seed(&mut p, S::SEED_LEN, word_bytes(S::FAMILY), true);
    let mut real = S::from_seed(&seed);
    let mut twin = S::from_seed(&seed);
    let bw = S::FAMILY.block_words();
    let pre = pre_skip_forced.unwrap_or_else(|| p.below(bw as u64 + 2) as usize);
    let n_ops = p.range(8, 64) as usize;
    let mut tn = || native(&mut twin, fam);
    let bb = block_bytes_of(fam);
    let mut gen = |i: usize, proj: &Proj| if i < n_ops { Some(gen_out_op(&mut p, proj.left_in_block(), bb)) } else { None };
    match check_history(S::NAME, fam, &mut real, &mut tn, pre, &mut gen, r) {
        Ok((ops, st)) => {
            r.distinct(hkey(&[&S::NAME, &seed, &show_ops(&ops)]));
            r.cov(&format!("type:{}", S::NAME));
            r.cov(&format!("seed_class:{}", class));
            if S::FAMILY.is_block() {
                r.cov(&format!("{}:start_index:{}", S::NAME, pre % bw));
                if st.straddle_u64 {
                    r.cov(&format!("{}:straddle_u64", S::NAME));
                }
                if st.straddle_fill {
                    r.cov(&format!("{}:straddle_fill", S::NAME));
                }
            }
            r.sample(json!({"type": S::NAME, "seed": hex(&seed), "pre_skip": pre, "ops": show_ops(&ops)}));
        }
        Err(mut d) => {
            d["type"] = json!(S::NAME);
            d["seed"] = json!(hex(&seed));
            d["pre_skip"] = json!(pre);
            let sig = format!("{}:projection:{}:{}", S::NAME, d["phase"].as_str().unwrap_or("?"),
                d["op"].as_str().map(|s| s.split('(').next().unwrap_or(s).to_string()).unwrap_or_default());
            r.violation(sig, sub, id, d);
        }
    }
}

fn jitter_case(sub: &str, id: u64, r: &mut Report) {
    let mut p = Prng::new(id);
    let n_ops = p.range(4, 24) as usize;
    let rounds = *p.pick(&[1u8, 1, 2, 3, 5]);
    // enough readings for every op to be a fresh collection of a 17-byte fill
    let class = *p.pick(&[0usize, 0, 0, 4, 5, 6, 9]);
    let readings = gen_script(&mut p, class, 200 + n_ops * 3 * 4 * (rounds as usize + 1));
    let tail = p.u64();
    let t_real = ScriptedTimer::new(readings.clone(), tail);
    let t_twin = ScriptedTimer::new(readings, tail);
    let mut real = rand_jitter::JitterRng::new_with_timer(t_real.closure());
    let mut twin = rand_jitter::JitterRng::new_with_timer(t_twin.closure());
    real.set_rounds(rounds);
    twin.set_rounds(rounds);
    let mut tn = || twin.next_u64();
    let pre = p.below(3) as usize;
    let mut gen = |i: usize, proj: &Proj| if i < n_ops { Some(gen_out_op(&mut p, proj.left_in_block(), 8)) } else { None };
    match check_history("JitterRng", PFam::Jitter, &mut real, &mut tn, pre, &mut gen, r) {
        Ok((ops, _)) => {
            r.distinct(hkey(&[&"JitterRng", &(id), &show_ops(&ops)]));
            r.cov("type:JitterRng");
            r.cov(&format!("jitter_script_class:{}", SCRIPT_CLASSES[class]));
            // both consumed the same number of readings
            r.eval();
            if t_real.calls() != t_twin.calls() {
                r.violation("JitterRng:projection:timer_readings".into(), sub, id,
                    json!({"ops": show_ops(&ops), "real_readings": t_real.calls(), "twin_readings": t_twin.calls()}));
            }
        }
        Err(mut d) => {
            d["type"] = json!("JitterRng");
            d["rounds"] = json!(rounds);
            d["script_class"] = json!(SCRIPT_CLASSES[class]);
            let sig = format!("JitterRng:projection:{}:{}", d["phase"].as_str().unwrap_or("?"),
                d["op"].as_str().map(|s| s.split('(').next().unwrap_or(s).to_string()).unwrap_or_default());
            r.violation(sig, sub, id, d);
        }
    }
}

/// JitterRng with a timer that panics at a chosen reading inside a call (the
/// caller recovers with catch_unwind): the aborted call handed nothing out, so
/// every later call must again be the projection of the next whole words of the
/// stream (re-synchronised through the pool hook and the timer position)
fn jitter_fault_case(sub: &str, id: u64, r: &mut Report) {
    let mut p = Prng::new(id);
    let rounds = *p.pick(&[1u8, 2, 3]);
    let readings = gen_script(&mut p, 0, 600);
    let tail = p.u64();
    let t_real = ScriptedTimer::new(readings.clone(), tail);
    let t_twin = ScriptedTimer::new(readings, tail);
    let mut real = rand_jitter::JitterRng::new_with_timer(t_real.closure());
    let mut twin = rand_jitter::JitterRng::new_with_timer(t_twin.closure());
    real.set_rounds(rounds);
    twin.set_rounds(rounds);
    let mut proj = Proj::new(PFam::Jitter);
    let mut words: Vec<u64> = Vec::new();
    let mut log: Vec<String> = Vec::new();
    let mut faults = 0;
    for _ in 0..p.range(6, 20) {
        let op = gen_out_op(&mut p, 0, 8);
        // now and then the generator is replaced by `fresh.clone_from(&self)`, where
        // `fresh` (same timer) itself holds a pending half: the stream continues with
        // the next whole word (a clone holds no pending half)
        if p.chance(1, 8) {
            let mut dst = rand_jitter::JitterRng::new_with_timer(t_real.closure());
            dst.set_rounds(rounds);
            let _ = dst.next_u32(); // consumes readings of the shared script
            t_twin.set_pos(t_real.calls()); // the twin skips exactly those readings
            dst.clone_from(&real);
            real = dst;
            proj.pending = None;
            words.truncate(proj.pos);
            log.push("clone_from_into_pending".into());
            r.cov("jitter_clone_from_splice");
        }
        if p.chance(1, 4) && !matches!(op, Op::Fill(0)) {
            let at = p.below(3 * (1 + rounds as u64)) as usize;
            log.push(format!("{}!fault@+{}", op.show(), at));
            t_real.inject_fault_after(at);
            let res = guarded(|| apply(&mut real, &op));
            let fired = !t_real.fault_pending();
            t_real.clear_fault();
            match res {
                Err(c) if c.message.contains(TIMER_FAULT_MSG) => {
                    faults += 1;
                    // nothing was handed out; nothing is pending; resynchronise the twin
                    twin.verif_set_pool(real.verif_pool());
                    t_twin.set_pos(t_real.calls());
                    proj.pending = None;
                    words.truncate(proj.pos);
                    continue;
                }
                Err(c) => { r.violation(format!("JitterRng:{}", c.signature()), sub, id, json!({"history": log.join(",")})); return; }
                Ok(_) if !fired => {
                    // the call did not reach the faulty reading (it served a pending half):
                    // abandon this history, nothing can be concluded from it
                    r.cov("fault_not_reached");
                    return;
                }
                Ok(_) => { r.inconclusive("fault fired but the call returned".into()); return; }
            }
        }
        log.push(op.show());
        let want = proj.expect(&op, &mut |k| { while words.len() <= k { words.push(twin.next_u64()); } words[k] });
        let got = apply(&mut real, &op);
        r.eval();
        if got != want {
            r.violation(format!("JitterRng:projection:after_timer_fault:{}", op.show().split('(').next().unwrap()), sub, id, json!({
                "history": log.join(","), "rounds": rounds, "faults_before": faults, "expected": want.show(), "observed": got.show(),
                "note": "after a panic of the timer closure inside a call (recovered by the caller) a later call is not the projection of the next whole word(s)"}));
            return;
        }
    }
    if faults > 0 {
        r.cov("jitter_faults_recovered");
    }
    r.distinct(hkey(&[&"jitter_fault", &id]));
}

fn case(sub: &str, id: u64, r: &mut Report) {
    match sub {
        "jitter_fault" => jitter_fault_case(sub, id, r),
        "history" => {
            let ti = (Prng::new(id ^ 0xabc).below(N_TYPES as u64 + 1)) as usize;
            if ti == N_TYPES {
                jitter_case(sub, id, r);
            } else {
                with_spec!(ti, S => seeded_case::<S>(sub, id, None, r));
            }
        }
        // forced start index: id = type * 1024 + index (enumerated)
        "start_index" => {
            let ti = (id / 1024) as usize;
            let idx = (id % 1024) as usize;
            with_spec!(ti, S => seeded_case::<S>(sub, id, Some(idx), r));
        }
        "jitter" => jitter_case(sub, id, r),
        // exhaustive short sequences around the block boundary: id = type << 40 | index
        "boundary" => {
            let ti = (id >> 40) as usize;
            let idx = id & ((1u64 << 40) - 1);
            if ti == N_TYPES {
                jitter_boundary_case(sub, idx, r);
            } else {
                with_spec!(ti, S => boundary_case::<S>(sub, idx, r));
            }
        }
        _ => r.inconclusive(format!("unknown sub-monitor {} for C05", sub)),
    }
}

pub fn run(ctx: &Ctx, only: Option<&Only>) -> Report {
    if let Some(o) = only {
        let mut r = Report::new();
        case(o.sub, o.id, &mut r);
        return r;
    }
    let mut total = Report::new();
    // every start index of every buffered generator, plus both half states
    let mut enumerated = Vec::new();
    for ti in [IDX_HC128, IDX_ISAAC, IDX_ISAAC64] {
        let bw = if ti == IDX_HC128 { 16 } else { 256 };
        for idx in 0..=bw + 1 {
            enumerated.push((ti * 1024 + idx) as u64);
        }
    }
    total.merge(par(ctx.threads, |t, r| {
        for (k, &id) in enumerated.iter().enumerate() {
            if k % ctx.threads == t && ctx.keep(k as u64) {
                case("start_index", id, r);
            }
        }
    }));
    // exhaustive: all sequences of 3 operations (4 for JitterRng) over the boundary
    // alphabet from 5 start positions (x2 half states for ISAAC-64) per type
    let mut n_boundary = 0u64;
    total.merge(par(ctx.threads, |t, r| {
        let mut k = 0u64;
        for ti in 0..=N_TYPES {
            let (a, slots) = if ti == N_TYPES { (8u64, 0) } else {
                with_spec!(ti, S => (boundary_alphabet(S::FAMILY.into()).len() as u64, if S::FAMILY.is_block() { 5u64 } else { 1 }))
            };
            let total_ids = if ti == N_TYPES { 8u64.pow(4) } else { a * a * a * slots * 2 };
            for idx in 0..total_ids {
                if k % ctx.threads as u64 == t as u64 && ctx.keep(k) {
                    super::run_case("boundary", ((ti as u64) << 40) | idx, r, &|id, r: &mut Report| case("boundary", id, r));
                }
                k += 1;
            }
        }
    }));
    let _ = &mut n_boundary;
    let secs = if ctx.tier_thorough { ctx.budget_s } else { 0.0 };
    total.merge(drive(ctx, "history", ctx.n(60_000, 60_000), secs * 0.8, |id, r| case("history", id, r)));
    total.merge(drive(ctx, "jitter", ctx.n(1_500, 1_500), secs * 0.15, |id, r| case("jitter", id, r)));
    total.merge(drive(ctx, "jitter_fault", ctx.n(1_500, 1_500), secs * 0.05, |id, r| case("jitter_fault", id, r)));
    total.floor("jitter_faults_recovered", 300);
    total.floor("jitter_clone_from_splice", 300);
    for name in TYPE_NAMES.iter().chain(["JitterRng"].iter()) {
        total.floor(&format!("type:{}", name), 20);
        total.floor(&format!("boundary:{}", name), 700);
        for t in 0..8 {
            total.floor(&format!("{}:fill_tail:{}", name, t), 1);
        }
        total.floor(&format!("{}:fill0", name), 1);
    }
    for (name, bw) in [("Hc128Rng", 16), ("IsaacRng", 256), ("Isaac64Rng", 256)] {
        for i in 0..bw {
            total.floor(&format!("{}:start_index:{}", name, i), 1);
        }
        total.floor(&format!("{}:straddle_fill", name), 1);
    }
    total.floor("Hc128Rng:straddle_u64", 1);
    total.floor("IsaacRng:straddle_u64", 1);
    total.floor("Isaac64Rng:u32_high_half", 1);
    total.floor("JitterRng:u32_high_half", 1);
    total
}
