//! C06: jump() / long_jump() equal 2^(n/2) / 2^(3n/4) single steps.
//! Oracle: powers of the transition matrix observed from the real step.

use super::linear::*;
use super::{drive, run_case, Only};
use crate::drive::gen_seed;
use crate::models::gf2::{BitVec, Mat};
use crate::specs::*;
use crate::util::*;
use crate::with_spec;
use rand_core::RngCore;
use serde_json::json;
use std::collections::HashMap;
use std::sync::{Mutex, OnceLock};

pub const JUMP_TYPES: [usize; 12] = [2, 3, 4, 5, 6, 7, 8, 9, 10, 11, 12, 13];

pub struct Oracle {
    pub t: Mat,
    pub j: Mat,
    pub l: Mat,
    pub zero_fixed: bool,
    /// inverses of the jump maps (None in interpreter runs): used to aim at states
    /// whose IMAGE under jump / long_jump is structured
    pub j_inv: Option<Mat>,
    pub l_inv: Option<Mat>,
    /// T^n, n = number of state bits = number of single steps jump()/long_jump() make
    /// internally while they accumulate the new state (None in interpreter runs)
    pub tn: Option<Mat>,
}

/// A state with a WORD COINCIDENCE: word `i` of A·s equals word `i` of B·s, for
/// (A, B) in {jump, long_jump} x {T^n (where the internal stepping of the jump leaves
/// the generator just before the new state is installed), identity (the word the
/// jump does not change)}. One 32/64-bit linear condition, 2^-64 for random states:
/// solved on the observed matrices. Caches keyed on part of the state, installs that
/// compare old and new words, "unchanged" shortcuts live exactly here.
pub fn coincidence_state(o: &Oracle, seed_len: usize, wb: usize, p: &mut Prng) -> Option<(Vec<u8>, &'static str)> {
    let tn = o.tn.as_ref()?;
    let n = seed_len * 8;
    let (a, an) = if p.chance(1, 2) { (&o.j, "jump") } else { (&o.l, "long_jump") };
    let vs_steps = p.chance(2, 3);
    let d = if vs_steps { a.add(tn) } else { a.add(&Mat::identity(n)) };
    let words = seed_len / wb;
    // one word, sometimes two
    let mut rows: Vec<usize> = Vec::new();
    let w0 = p.below(words as u64) as usize;
    rows.extend(w0 * wb * 8..(w0 + 1) * wb * 8);
    if words > 2 && p.chance(1, 4) {
        let w1 = (w0 + 1 + p.below(words as u64 - 1) as usize) % words;
        rows.extend(w1 * wb * 8..(w1 + 1) * wb * 8);
    }
    let basis = d.kernel_on_rows(&rows);
    if basis.is_empty() { return None; }
    let mut v = BitVec::zero(n);
    for b in &basis { if p.chance(1, 2) { v.xor_in(b); } }
    if v.is_zero() { v = basis[p.below(basis.len() as u64) as usize].clone(); }
    let name = match (an, vs_steps) {
        ("jump", true) => "coincidence:jump_vs_n_steps",
        ("jump", false) => "coincidence:jump_vs_unchanged",
        (_, true) => "coincidence:long_jump_vs_n_steps",
        _ => "coincidence:long_jump_vs_unchanged",
    };
    Some((v.to_bytes(), name))
}

static ORACLES: OnceLock<Mutex<HashMap<usize, std::sync::Arc<Oracle>>>> = OnceLock::new();

pub fn oracle_for(ti: usize, r: &mut Report) -> std::sync::Arc<Oracle> {
    let m = ORACLES.get_or_init(|| Mutex::new(HashMap::new()));
    if let Some(o) = m.lock().unwrap().get(&ti) {
        return o.clone();
    }
    // interpreter runs (Miri) cannot afford the matrix powers: the driver computes the
    // oracle natively from the same sources (dump_oracles) and passes it in a file
    if let Ok(dir) = std::env::var("VERIF_C06_ORACLE") {
        // one plain-text file per type and matrix: a hex column per line (cheap to parse
        // under the interpreter)
        let mat = |key: &str| -> Option<Mat> {
            // raw bytes: n columns of n/8 bytes each
            let raw = std::fs::read(format!("{}/{}.{}", dir, TYPE_NAMES[ti], key)).ok()?;
            let n = with_spec!(ti, S => S::SEED_LEN * 8);
            let cols: Vec<BitVec> = raw.chunks(n / 8).map(BitVec::from_bytes).collect();
            if cols.len() != n { return None; }
            Some(Mat { n, cols })
        };
        if let (Some(t), Some(j), Some(l)) = (mat("t"), mat("j"), mat("l")) {
            let o = std::sync::Arc::new(Oracle { t, j, l, zero_fixed: true, j_inv: None, l_inv: None, tn: None });
            m.lock().unwrap().insert(ti, o.clone());
            return o;
        }
    }
    let o = with_spec!(ti, S => {
        let (t, z) = observe_matrix::<S>(r);
        let n = (S::SEED_LEN * 8) as u32;
        let j = t.pow2k(n / 2);
        let l = j.pow2k(n / 4); // 2^(n/2) * 2^(n/4) squarings = T^(2^(3n/4))
        let (j_inv, l_inv) = (j.inverse(), l.inverse());
        let tn = Some(t.pow2k(n.trailing_zeros()));
        std::sync::Arc::new(Oracle { t, j, l, zero_fixed: z.is_zero(), j_inv, l_inv, tn })
    });
    m.lock().unwrap().insert(ti, o.clone());
    o
}

/// write T, T^(2^(n/2)), T^(2^(3n/4)) of every jump-capable type as observed natively
pub fn dump_oracles(path: &str) {
    let mut r = Report::new();
    std::fs::create_dir_all(path).expect("oracle dir");
    for &ti in &JUMP_TYPES {
        let o = oracle_for(ti, &mut r);
        for (key, m) in [("t", &o.t), ("j", &o.j), ("l", &o.l)] {
            let raw: Vec<u8> = m.cols.iter().flat_map(|c| c.to_bytes()).collect();
            std::fs::write(format!("{}/{}.{}", path, TYPE_NAMES[ti], key), raw).expect("write oracle file");
        }
    }
}

fn outputs<S: Spec>(g: &mut S::R, n: usize) -> Vec<u64> {
    (0..n).map(|_| native_step::<S>(g)).collect()
}

fn check_jump<S: Spec>(o: &Oracle, state: &[u8], long: bool, how: &str, sub: &str, id: u64, r: &mut Report) -> bool {
    let which = if long { "long_jump" } else { "jump" };
    let mut g = inject::<S>(state);
    if long {
        S::long_jump(&mut g);
    } else {
        S::jump(&mut g);
    }
    let got = image::<S>(&g);
    let m = if long { &o.l } else { &o.j };
    let want = m.apply(&BitVec::from_bytes(state)).to_bytes();
    r.eval();
    if got != want {
        r.violation(
            format!("{}:{}:state", S::NAME, which),
            sub,
            id,
            json!({"type": S::NAME, "op": which, "state_class": how, "state": hex(state),
                   "expected_state(T^(2^k)·s)": hex(&want), "observed_state": hex(&got)}),
        );
        return false;
    }
    // == against a generator built from the predicted state, and equal futures
    if want.iter().any(|&b| b != 0) {
        let mut twin = S::from_seed(&want);
        r.eval();
        if S::eq(&g, &twin) != Some(true) {
            r.violation(format!("{}:{}:eq_from_seed", S::NAME, which), sub, id,
                json!({"type": S::NAME, "state": hex(state), "predicted": hex(&want)}));
            return false;
        }
        let a = outputs::<S>(&mut g, 8);
        let b = outputs::<S>(&mut twin, 8);
        r.eval();
        if a != b {
            r.violation(format!("{}:{}:outputs", S::NAME, which), sub, id,
                json!({"type": S::NAME, "state": hex(state)}));
            return false;
        }
    }
    true
}

fn case_typed<S: Spec>(ti: usize, sub: &str, id: u64, r: &mut Report) {
    let o = oracle_for(ti, r);
    let mut p = Prng::new(id);
    let wb = (S::FAMILY.native_bits() / 8) as usize;
    match sub {
        // basis states: id = type*1024 + bit (enumerated)
        "basis" => {
            let bit = (id % 1024) as usize;
            let n = S::SEED_LEN * 8;
            if bit < n {
                let e = BitVec::unit(n, bit).to_bytes();
                let ok = check_jump::<S>(&o, &e, false, "basis", sub, id, r) & check_jump::<S>(&o, &e, true, "basis", sub, id, r);
                if ok {
                    r.distinct(hkey(&[&S::NAME, &e]));
                    r.cov(&format!("basis:{}", S::NAME));
                }
            }
        }
        "random" => {
            let (class, mut s) = gen_seed(&mut p, S::SEED_LEN, wb, false);
            // a quarter of the states are pre-images: jump(s) or long_jump(s) IS the structured state
            let pre = p.below(8);
            let mut coincidence: Option<&'static str> = None;
            if pre == 2 {
                if let Some((v, name)) = coincidence_state(&o, S::SEED_LEN, wb, &mut p) {
                    s = v;
                    coincidence = Some(name);
                    r.cov(name);
                    r.cov("coincidence_states");
                }
            }
            if pre < 2 {
                if let Some(inv) = if pre == 0 { &o.j_inv } else { &o.l_inv } {
                    let v = inv.apply(&BitVec::from_bytes(&s)).to_bytes();
                    if v.iter().any(|&b| b != 0) {
                        s = v;
                        r.cov("preimage_of_structured_under_jump");
                    }
                }
            }
            // mid-history states: advance the generator a little first
            let how = if let Some(name) = coincidence { name } else if pre >= 2 && p.chance(1, 3) {
                let mut g = inject::<S>(&s);
                for _ in 0..p.range(1, 40) {
                    native_step::<S>(&mut g);
                }
                if p.chance(1, 2) {
                    S::jump(&mut g);
                }
                s = image::<S>(&g);
                "mid_history"
            } else {
                class
            };
            let ok = check_jump::<S>(&o, &s, false, how, sub, id, r) & check_jump::<S>(&o, &s, true, how, sub, id, r);
            if ok {
                r.distinct(hkey(&[&S::NAME, &s]));
                r.cov(&format!("type:{}", S::NAME));
                r.cov(&format!("state_class:{}", how));
                r.sample(json!({"type": S::NAME, "state": hex(&s), "jump_state": hex(&o.j.apply(&BitVec::from_bytes(&s)).to_bytes())}));
            }
        }
        // commutation corollaries on the real code only
        "commute" => {
            let (_, s) = gen_seed(&mut p, S::SEED_LEN, wb, false);
            let k = p.range(1, 20) as usize;
            let mut a = inject::<S>(&s);
            let mut b = inject::<S>(&s);
            // jump ∘ step^k == step^k ∘ jump
            S::jump(&mut a);
            for _ in 0..k { native_step::<S>(&mut a); }
            for _ in 0..k { native_step::<S>(&mut b); }
            S::jump(&mut b);
            r.eval();
            if image::<S>(&a) != image::<S>(&b) {
                r.violation(format!("{}:jump_step_commute", S::NAME), sub, id, json!({"type": S::NAME, "state": hex(&s), "k": k}));
            }
            // jump ∘ long_jump == long_jump ∘ jump
            let mut a = inject::<S>(&s);
            let mut b = inject::<S>(&s);
            S::jump(&mut a); S::long_jump(&mut a);
            S::long_jump(&mut b); S::jump(&mut b);
            r.eval();
            if image::<S>(&a) != image::<S>(&b) {
                r.violation(format!("{}:jump_long_jump_commute", S::NAME), sub, id, json!({"type": S::NAME, "state": hex(&s)}));
            }
            // long_jump == jump applied 2^(n/4) times is out of reach; but
            // jump^k from one seed must be pairwise distinct
            let mut g = inject::<S>(&s);
            let mut seen = std::collections::HashSet::new();
            seen.insert(image::<S>(&g));
            for i in 0..16 {
                S::jump(&mut g);
                r.eval();
                if !seen.insert(image::<S>(&g)) {
                    r.violation(format!("{}:jump_repeats", S::NAME), sub, id, json!({"type": S::NAME, "state": hex(&s), "jump_number": i + 1}));
                    break;
                }
            }
            r.cov(&format!("commute:{}", S::NAME));
            r.distinct(hkey(&[&"commute", &S::NAME, &s]));
        }
        // linearity of the real step on random executions (the inference the
        // basis results rest on)
        "linearity" => {
            match linearity_monitor::<S>(&o.t, 64, &mut p, r) {
                Ok(n) => r.covn(&format!("linearity_obs:{}", S::NAME), n),
                Err(w) => r.violation(format!("{}:step_not_linear", S::NAME), sub, id, w),
            }
            // jump itself is linear: jump(a^b) = jump(a)^jump(b)
            let (_, a) = gen_seed(&mut p, S::SEED_LEN, wb, true);
            let (_, b) = gen_seed(&mut p, S::SEED_LEN, wb, true);
            let ab: Vec<u8> = a.iter().zip(b.iter()).map(|(x, y)| x ^ y).collect();
            let jm = |s: &[u8], long: bool| { let mut g = inject::<S>(s); if long { S::long_jump(&mut g) } else { S::jump(&mut g) }; image::<S>(&g) };
            for long in [false, true] {
                let (ja, jb, jab) = (jm(&a, long), jm(&b, long), jm(&ab, long));
                let x: Vec<u8> = ja.iter().zip(jb.iter()).map(|(x, y)| x ^ y).collect();
                r.eval();
                if x != jab {
                    r.violation(format!("{}:jump_not_linear", S::NAME), sub, id, json!({"type": S::NAME, "a": hex(&a), "b": hex(&b), "long": long}));
                }
            }
        }
        // consecutive jumps from RELATED states (word i ^= d, word j ^= rot(d, k);
        // additive pairs; swapped words): a result memoised or fingerprinted on
        // part of the state would be reused across them
        "related_pairs" => {
            let words = S::SEED_LEN / wb;
            let bits = (wb * 8) as u32;
            let mask = if wb == 4 { 0xffff_ffffu64 } else { u64::MAX };
            let rd = |s: &[u8], i: usize| -> u64 { let mut v = 0u64; for k in 0..wb { v |= (s[i * wb + k] as u64) << (8 * k); } v };
            let wr = |s: &mut [u8], i: usize, v: u64| { for k in 0..wb { s[i * wb + k] = (v >> (8 * k)) as u8; } };
            let rot = |v: u64, k: u32| -> u64 { let k = k % bits; if k == 0 { v & mask } else { ((v << k) | ((v & mask) >> (bits - k))) & mask } };
            let (_, x) = gen_seed(&mut p, S::SEED_LEN, wb, false);
            let long = p.chance(1, 2);
            let i = p.below(words as u64) as usize;
            let j = (i + 1 + p.below(words as u64 - 1) as usize) % words;
            let d = { let v = p.u64() & mask; if v == 0 { 1 } else { v } };
            let mut n_pairs = 0u64;
            let step = if crate::util::REDUCED.load(std::sync::atomic::Ordering::Relaxed) { 16 } else { 1 };
            for k in (0..bits).step_by(step) {
                for variant in 0..3 {
                    let mut y = x.clone();
                    match variant {
                        0 => { wr(&mut y, i, rd(&x, i) ^ d); wr(&mut y, j, rd(&x, j) ^ rot(d, k)); }
                        1 => { wr(&mut y, i, rd(&x, i).wrapping_add(rot(d, k)) & mask); wr(&mut y, j, rd(&x, j).wrapping_sub(rot(d, k)) & mask); }
                        _ => { if k > 0 { continue; } let (a, b) = (rd(&x, i), rd(&x, j)); wr(&mut y, i, b); wr(&mut y, j, a); }
                    }
                    if y == x || y.iter().all(|&b| b == 0) { continue; }
                    // X then Y back to back on this thread, same method
                    if !check_jump::<S>(&o, &x, long, "related_pair_first", sub, id, r) { return; }
                    if !check_jump::<S>(&o, &y, long, "related_pair_second", sub, id, r) { return; }
                    n_pairs += 1;
                }
            }
            r.covn(&format!("related_pairs:{}", S::NAME), n_pairs);
            r.distinct(hkey(&[&"related", &S::NAME, &x, &i, &j]));
        }
        // the FIRST jump()/long_jump() calls of a fresh process, made at the same moment
        // on 16 threads, each with its own generator (lazily initialised shared tables,
        // scratch buffers): the monitor re-executes itself as a child process
        "first_call_race" => {
            let long = id % 2 == 1;
            let exe = match std::env::current_exe() { Ok(e) => e, Err(_) => { r.inconclusive("current_exe unavailable".into()); return; } };
            let out = std::process::Command::new(&exe).args(["--c06-race-child", &ti.to_string(), if long { "1" } else { "0" }, &id.to_string()]).output();
            let out = match out { Ok(o) if o.status.success() => o, _ => { r.inconclusive("first_call_race: child process failed".into()); return; } };
            let m = if long { &o.l } else { &o.j };
            let mut n = 0;
            for line in String::from_utf8_lossy(&out.stdout).lines() {
                let mut it = line.split(' ');
                let (Some(a), Some(b)) = (it.next(), it.next()) else { continue };
                let (before, after) = (unhex(a), unhex(b));
                let want = m.apply(&BitVec::from_bytes(&before)).to_bytes();
                r.eval();
                n += 1;
                if after != want {
                    r.violation(format!("{}:{}:first_calls_racing_in_a_fresh_process", S::NAME, if long { "long_jump" } else { "jump" }), sub, id, json!({
                        "type": S::NAME, "state": hex(&before), "expected_state": hex(&want), "observed_state": hex(&after),
                        "note": "16 threads, each with its own generator, made the first jump of a fresh process at the same time"}));
                    return;
                }
            }
            if n < 16 { r.inconclusive("first_call_race: child printed too few results".into()); return; }
            r.cov(&format!("first_call_race:{}", S::NAME));
            r.distinct(hkey(&[&"first_call_race", &S::NAME, &id]));
        }
        _ => r.inconclusive(format!("unknown sub-monitor {} for C06", sub)),
    }
}

/// child side of first_call_race: 16 threads, one barrier, one jump each; prints
/// `<state before> <state after>` (hex) per thread
pub fn race_child(ti: usize, long: bool, id: u64) {
    with_spec!(ti, S => {
        let barrier = std::sync::Barrier::new(16);
        let lines = std::sync::Mutex::new(Vec::new());
        std::thread::scope(|sc| {
            for k in 0..16u64 {
                let (barrier, lines) = (&barrier, &lines);
                sc.spawn(move || {
                    let mut p = Prng::derive(id, k, 1);
                    let mut s = p.bytes(S::SEED_LEN);
                    s[0] |= 1;
                    let mut g = inject::<S>(&s);
                    barrier.wait();
                    if long { S::long_jump(&mut g); } else { S::jump(&mut g); }
                    lines.lock().unwrap().push(format!("{} {}", hex(&s), hex(&image::<S>(&g))));
                });
            }
        });
        for l in lines.into_inner().unwrap() { println!("{}", l); }
    });
}

fn case(sub: &str, id: u64, r: &mut Report) {
    let ti = if sub == "basis" { (id / 1024) as usize } else if sub == "first_call_race" { JUMP_TYPES[((id / 2) % 12) as usize] } else { JUMP_TYPES[(Prng::new(id ^ 0x77).below(12)) as usize] };
    with_spec!(ti, S => {
        if S::HAS_JUMP { case_typed::<S>(ti, sub, id, r) }
    });
}

pub fn run(ctx: &Ctx, only: Option<&Only>) -> Report {
    if let Some(o) = only {
        let mut r = Report::new();
        let sub = o.sub.to_string();
        run_case(o.sub, o.id, &mut r, &|id, r: &mut Report| case(&sub, id, r));
        return r;
    }
    let mut total = Report::new();
    // observe the matrices first (and report their shape)
    for &ti in &JUMP_TYPES {
        let o = oracle_for(ti, &mut total);
        if !o.zero_fixed {
            total.violation(format!("{}:zero_state_not_fixed", TYPE_NAMES[ti]), "matrix", ti as u64, json!({"type": TYPE_NAMES[ti]}));
        }
        total.cov(&format!("matrix_observed:{}", TYPE_NAMES[ti]));
    }
    let mut basis_ids = Vec::new();
    for &ti in &JUMP_TYPES {
        let n = with_spec!(ti, S => S::SEED_LEN * 8);
        for b in 0..n {
            if ctx.keep(basis_ids.len() as u64 + b as u64) || ctx.scale >= 1.0 {
                basis_ids.push((ti * 1024 + b) as u64);
            }
        }
    }
    total.merge(par(ctx.threads, |t, r| {
        for (k, &id) in basis_ids.iter().enumerate() {
            if k % ctx.threads == t {
                run_case("basis", id, r, &|id, r: &mut Report| case("basis", id, r));
            }
        }
    }));
    let secs = if ctx.tier_thorough { ctx.budget_s } else { 0.0 };
    total.merge(drive(ctx, "random", ctx.n(12_000, 12_000), secs * 0.5, |id, r| case("random", id, r)));
    total.merge(drive(ctx, "commute", ctx.n(2_000, 2_000), secs * 0.2, |id, r| case("commute", id, r)));
    total.merge(drive(ctx, "linearity", ctx.n(2_400, 2_400), secs * 0.2, |id, r| case("linearity", id, r)));
    total.merge(drive(ctx, "related_pairs", ctx.n(600, 600), secs * 0.1, |id, r| case("related_pairs", id, r)));
    if ctx.scale >= 1.0 {
        // 12 types x {jump, long_jump} x 3 fresh processes
        total.merge(par(ctx.threads.min(4), |t, r| {
            for k in 0..72u64 {
                if k as usize % ctx.threads.min(4) == t {
                    run_case("first_call_race", k, r, &|id, r: &mut Report| case("first_call_race", id, r));
                }
            }
        }));
    }
    for &ti in &JUMP_TYPES {
        let n = with_spec!(ti, S => S::SEED_LEN * 8) as u64;
        total.floor(&format!("basis:{}", TYPE_NAMES[ti]), n);
        total.floor(&format!("type:{}", TYPE_NAMES[ti]), 100);
        total.floor(&format!("linearity_obs:{}", TYPE_NAMES[ti]), 1000);
        total.floor(&format!("related_pairs:{}", TYPE_NAMES[ti]), 500);
        total.floor(&format!("first_call_race:{}", TYPE_NAMES[ti]), 4);
    }
    total.floor("preimage_of_structured_under_jump", 500);
    total.floor("coincidence_states", 500);
    total.note("inference: the real step agreed with the observed matrix T on every linearity observation counted in linearity_obs:*; jump/long_jump agree with T^(2^(n/2)) / T^(2^(3n/4)) on all n basis states, hence (by linearity of both sides) on every state consistent with those observations".into());
    total
}
