//! C08: no seeding path yields the all-zero state; zero seeds are remapped as
//! documented; every other seed is used verbatim.

use super::linear::{image, native_step};
use super::{drive, run_case, Only};
use crate::drive::*;
use crate::models::vigna::SplitMix;
use crate::specs::*;
use crate::util::*;
use crate::with_spec;
use rand_core::SeedableRng;
use serde_json::json;

pub const LINEAR_TYPES: [usize; 15] = [0, 1, 2, 3, 4, 5, 6, 7, 8, 9, 10, 11, 12, 13, 15];

/// invariant on a constructor result: state image not all zero, and the first
/// 64 outputs not all zero
fn nonzero<S: Spec>(g: &S::R, how: &str, input: serde_json::Value, sub: &str, id: u64, r: &mut Report) -> bool {
    let img = image::<S>(g);
    r.eval();
    let mut c = g.clone();
    let all_zero_out = (0..64).all(|_| native_step::<S>(&mut c) == 0);
    if img.iter().all(|&b| b == 0) || all_zero_out {
        r.violation(format!("{}:{}:all_zero_state", S::NAME, how), sub, id,
            json!({"type": S::NAME, "constructor": how, "input": input, "state_image": hex(&img)}));
        return false;
    }
    true
}

/// u64 arguments of special interest for seed_from_u64
pub fn special_u64(p: &mut Prng, k: u64) -> u64 {
    const PHI: u64 = 0x9e37_79b9_7f4a_7c15;
    match k % 12 {
        0 => 0,
        1 => u64::MAX,
        2 => 1u64 << p.below(64),
        3 => (1u64 << p.below(64)).wrapping_sub(1),
        // x whose first SplitMix64 output is 0 (an all-zero 8-byte seed block)
        4 => SplitMix::unfin64(0).wrapping_sub(PHI),
        // x whose second SplitMix64 output is 0
        5 => SplitMix::unfin64(0).wrapping_sub(PHI.wrapping_mul(2)),
        // x whose first output has a zero low / high half
        6 => SplitMix::unfin64(p.u64() << 32).wrapping_sub(PHI),
        7 => SplitMix::unfin64(p.u64() >> 32).wrapping_sub(PHI),
        8 => p.below(1 << 16),
        _ => p.u64(),
    }
}

fn case_typed<S: Spec>(sub: &str, id: u64, r: &mut Report) {
    let mut p = Prng::new(id);
    let wb = (S::FAMILY.native_bits() / 8) as usize;
    let is_xorshift = S::NAME == "XorShiftRng";
    match sub {
        // the all-zero seed (one case per type)
        "zero_seed" => {
            let z = vec![0u8; S::SEED_LEN];
            let g = S::from_seed(&z);
            nonzero::<S>(&g, "from_seed(0)", json!("all-zero seed"), sub, id, r);
            r.eval();
            if is_xorshift {
                let want: Vec<u8> = std::iter::repeat(0x0BAD_5EEDu32.to_le_bytes()).take(4).flatten().collect();
                if image::<S>(&g) != want {
                    r.violation("XorShiftRng:zero_seed_remap".into(), sub, id,
                        json!({"expected_state": hex(&want), "observed_state": hex(&image::<S>(&g))}));
                }
            } else {
                let h = S::R::seed_from_u64(0);
                if S::eq(&g, &h) != Some(true) {
                    r.violation(format!("{}:zero_seed_remap", S::NAME), sub, id,
                        json!({"type": S::NAME, "from_seed(0)": hex(&image::<S>(&g)), "seed_from_u64(0)": hex(&image::<S>(&h))}));
                }
            }
            r.cov(&format!("zero_seed:{}", S::NAME));
            r.distinct(hkey(&[&"zero_seed", &S::NAME]));
        }
        // the FIRST zero-seed constructions of a fresh process, released together on 16
        // threads (a lazily built replacement, once-cells, "ready" flags): the monitor
        // re-executes itself; id = type*64 + repetition
        "first_zero_seed_race" => {
            let exe = match std::env::current_exe() { Ok(e) => e, Err(_) => { r.inconclusive("current_exe unavailable".into()); return; } };
            let ti = (id / 64) as usize;
            let out = std::process::Command::new(&exe).args(["--c08-race-child", &ti.to_string(), &id.to_string()]).output();
            let out = match out { Ok(o) if o.status.success() => o, _ => { r.inconclusive("first_zero_seed_race: child process failed".into()); return; } };
            let want = preset_block(S::NAME, S::SEED_LEN);
            let mut n = 0;
            for line in String::from_utf8_lossy(&out.stdout).lines() {
                let mut it = line.split(' ');
                let (Some(route), Some(img)) = (it.next(), it.next()) else { continue };
                n += 1;
                r.eval();
                if img == "PANIC" || unhex(img) != want {
                    r.violation(format!("{}:zero_seed_remap:first_constructions_racing_in_a_fresh_process", S::NAME), sub, id, json!({
                        "type": S::NAME, "constructor": route, "expected_state": hex(&want), "observed_state": img,
                        "note": "16 threads made the first all-zero-seed constructions of a fresh process at the same moment"}));
                    return;
                }
            }
            if n < 16 { r.inconclusive("first_zero_seed_race: child printed too few results".into()); return; }
            r.cov(&format!("first_zero_seed_race:{}", S::NAME));
            r.distinct(hkey(&[&"first_zero_seed_race", &S::NAME, &id]));
        }
        // every other seed is used verbatim (enumerated single-byte seeds: id = type*1024+k)
        "single_byte" => {
            let k = (id % 1024) as usize;
            let seeds = single_byte_seeds(S::SEED_LEN);
            if k < seeds.len() {
                let g = S::from_seed(&seeds[k]);
                r.eval();
                if image::<S>(&g) != seeds[k] {
                    r.violation(format!("{}:seed_not_verbatim", S::NAME), sub, id,
                        json!({"type": S::NAME, "seed": hex(&seeds[k]), "state_image": hex(&image::<S>(&g))}));
                }
                r.cov("single_byte_seeds");
                r.distinct(hkey(&[&S::NAME, &seeds[k]]));
            }
        }
        "verbatim" => {
            let (class, s) = gen_seed(&mut p, S::SEED_LEN, wb, false);
            let g = S::from_seed(&s);
            r.eval();
            if image::<S>(&g) != s {
                r.violation(format!("{}:seed_not_verbatim", S::NAME), sub, id,
                    json!({"type": S::NAME, "seed": hex(&s), "state_image": hex(&image::<S>(&g))}));
            }
            // distinct non-zero seeds give distinct generators
            let mut s2 = s.clone();
            let bit = p.below(S::SEED_LEN as u64 * 8) as usize;
            s2[bit / 8] ^= 1 << (bit % 8);
            if s2.iter().any(|&b| b != 0) {
                r.eval();
                if S::eq(&g, &S::from_seed(&s2)) != Some(false) {
                    r.violation(format!("{}:distinct_seeds_equal_generators", S::NAME), sub, id,
                        json!({"type": S::NAME, "seed_a": hex(&s), "seed_b": hex(&s2)}));
                }
            }
            r.cov(&format!("verbatim:{}", S::NAME));
            r.cov(&format!("seed_class:{}", class));
            r.distinct(hkey(&[&S::NAME, &s]));
        }
        "seed_from_u64" => {
            for k in 0..64 {
                let x = special_u64(&mut p, k);
                let g = S::R::seed_from_u64(x);
                if nonzero::<S>(&g, "seed_from_u64", json!(hx64(x)), sub, id, r) {
                    r.distinct(hkey(&[&"u64", &S::NAME, &x]));
                }
                if k % 12 == 4 {
                    r.cov(&format!("splitmix_zero_block:{}", S::NAME));
                }
            }
            r.cov(&format!("seed_from_u64:{}", S::NAME));
        }
        // source RNG delivering k all-zero blocks, then data (or zeros forever)
        "from_rng" => {
            let k = if p.chance(1, 2) { p.below(5) as usize } else { *p.pick(zero_block_counts()) };
            // (only XorShiftRng redraws; the others read one block, so huge runs add nothing)
            let k = if is_xorshift { k } else { k.min(1001) };
            let all_zero_source = !is_xorshift && p.chance(1, 5);
            let mut data = vec![0u8; k * S::SEED_LEN];
            if !all_zero_source {
                let (_, tail) = gen_seed(&mut p, S::SEED_LEN, wb, false);
                // sometimes the documented zero-seed substitute itself arrives as data
                let tail = if p.chance(1, 8) { r.cov("preset_block_as_data"); preset_block(S::NAME, S::SEED_LEN) } else { tail };
                data.extend_from_slice(&tail);
                data.extend_from_slice(&p.bytes(64));
            } else {
                data.extend_from_slice(&vec![0u8; 4096]);
            }
            let desc = json!({"leading_zero_blocks": k, "all_zero_source": all_zero_source, "data_prefix": hex(&data[..data.len().min(96)])});
            let mut src = SourceRng::new(data.clone());
            let g = S::R::from_rng(&mut src);
            let ok1 = nonzero::<S>(&g, "from_rng", desc.clone(), sub, id, r);
            // "every other seed is used verbatim": the state is the first block delivered
            // (XorShiftRng: the first NON-ZERO block), unless that block is all zero
            if !all_zero_source {
                let off = if is_xorshift { k * S::SEED_LEN } else { 0 };
                let block = &data[off..off + S::SEED_LEN];
                if block.iter().any(|&b| b != 0) {
                    r.eval();
                    if image::<S>(&g) != block {
                        let mut d = desc.clone();
                        d["block_delivered"] = json!(hex(block));
                        d["state_image"] = json!(hex(&image::<S>(&g)));
                        r.violation(format!("{}:from_rng:block_not_used_verbatim", S::NAME), sub, id, d);
                        return;
                    }
                }
            }
            // a fallible source that delivers zero blocks and then starts failing:
            // the result must be the error, or at any rate never a zero-state generator
            {
                let mut fs = SourceRng::new(vec![0u8; 8 * S::SEED_LEN]);
                fs.fail_from = Some(1 + p.below(3) as usize);
                fs.scribble = p.chance(1, 2);
                let mut fsrc = FallibleSource(fs);
                if let Ok(g3) = S::R::try_from_rng(&mut fsrc) {
                    nonzero::<S>(&g3, "try_from_rng(zero blocks, then source failure)", desc.clone(), sub, id, r);
                }
                r.cov("zero_blocks_then_failure");
            }
            let mut src2 = FallibleSource(SourceRng::new(data.clone()));
            match S::R::try_from_rng(&mut src2) {
                Ok(g2) => {
                    nonzero::<S>(&g2, "try_from_rng", desc.clone(), sub, id, r);
                }
                Err(_) => r.violation(format!("{}:try_from_rng:error_from_infallible_source", S::NAME), sub, id, desc.clone()),
            }
            if ok1 {
                r.distinct(hkey(&[&"from_rng", &S::NAME, &data]));
                r.cov(&format!("from_rng:{}", S::NAME));
                r.cov(&format!("leading_zero_blocks:{}", if k < 5 { k.to_string() } else { "many".into() }));
                if all_zero_source {
                    r.cov("all_zero_source");
                }
                r.sample(json!({"type": S::NAME, "constructor": "from_rng", "input": desc, "state_image": hex(&image::<S>(&g))}));
            }
        }
        _ => r.inconclusive(format!("unknown sub-monitor {} for C08", sub)),
    }
}

/// child side of first_zero_seed_race: 16 threads leave a spin barrier together and
/// build a generator from the all-zero seed (even threads: from_seed, odd threads:
/// from_rng over a source whose first block is zero); prints `<route> <state image>`
pub fn race_child(ti: usize, id: u64) {
    with_spec!(ti, S => { race_child_typed::<S>(id) });
}

fn race_child_typed<S: Spec>(id: u64) {
    use std::sync::atomic::{AtomicUsize, Ordering};
    {
        const N: usize = 16;
        let arrived = AtomicUsize::new(0);
        let lines = std::sync::Mutex::new(Vec::new());
        std::thread::scope(|sc| {
            for t in 0..N {
                let (arrived, lines) = (&arrived, &lines);
                sc.spawn(move || {
                    let z = vec![0u8; S::SEED_LEN];
                    // source for from_rng: one zero block, then the documented replacement's own
                    // bytes never matter (a zero block alone decides for the xoshiro family;
                    // XorShiftRng redraws: give it the preset as second block)
                    let mut data = z.clone();
                    data.extend(preset_block(S::NAME, S::SEED_LEN));
                    arrived.fetch_add(1, Ordering::SeqCst);
                    while arrived.load(Ordering::SeqCst) < N { std::hint::spin_loop(); }
                    let (route, g) = if (t + id as usize) % 2 == 0 {
                        ("from_seed", guarded(|| S::from_seed(&z)))
                    } else {
                        ("from_rng", guarded(|| S::R::from_rng(&mut SourceRng::new(data.clone()))))
                    };
                    let img = match g { Ok(g) => hex(&image::<S>(&g)), Err(_) => "PANIC".to_string() };
                    lines.lock().unwrap().push(format!("{} {}", route, img));
                });
            }
        });
        for l in lines.into_inner().unwrap() { println!("{}", l); }
    }
}

fn case(sub: &str, id: u64, r: &mut Report) {
    let ti = match sub {
        "zero_seed" => id as usize,
        "single_byte" => (id / 1024) as usize,
        "first_zero_seed_race" => (id / 64) as usize,
        _ => LINEAR_TYPES[Prng::new(id ^ 0x1234).below(15) as usize],
    };
    with_spec!(ti, S => { if S::LINEAR { case_typed::<S>(sub, id, r) } });
}

pub fn run(ctx: &Ctx, only: Option<&Only>) -> Report {
    if let Some(o) = only {
        let mut r = Report::new();
        let sub = o.sub.to_string();
        run_case(o.sub, o.id, &mut r, &|id, r: &mut Report| case(&sub, id, r));
        return r;
    }
    let mut ids: Vec<(&str, u64)> = Vec::new();
    for &ti in &LINEAR_TYPES {
        ids.push(("zero_seed", ti as u64));
        for k in 0..192 {
            ids.push(("single_byte", (ti * 1024 + k) as u64));
        }
    }
    let mut total = par(ctx.threads, |t, r| {
        for (k, (sub, id)) in ids.iter().enumerate() {
            if k % ctx.threads == t && ctx.keep(k as u64) {
                run_case(sub, *id, r, &|id, r: &mut Report| case(sub, id, r));
            }
        }
    });
    let secs = if ctx.tier_thorough { ctx.budget_s } else { 0.0 };
    total.merge(drive(ctx, "verbatim", 30_000, secs * 0.2, |id, r| case("verbatim", id, r)));
    total.merge(drive(ctx, "seed_from_u64", 16_000, secs * 0.5, |id, r| case("seed_from_u64", id, r)));
    total.merge(drive(ctx, "from_rng", 30_000, secs * 0.3, |id, r| case("from_rng", id, r)));
    if ctx.scale >= 1.0 {
        // 15 types x 24 fresh processes
        let reps: u64 = if ctx.tier_thorough { 64 } else { 24 };
        total.merge(par(ctx.threads.min(4), |t, r| {
            let mut k = 0usize;
            for &ti in &LINEAR_TYPES {
                for rep in 0..reps {
                    if k % ctx.threads.min(4) == t {
                        run_case("first_zero_seed_race", ti as u64 * 64 + rep, r, &|id, r: &mut Report| case("first_zero_seed_race", id, r));
                    }
                    k += 1;
                }
            }
        }));
        for &ti in &LINEAR_TYPES {
            total.floor(&format!("first_zero_seed_race:{}", TYPE_NAMES[ti]), 8);
        }
    }
    for &ti in &LINEAR_TYPES {
        let n = TYPE_NAMES[ti];
        total.floor(&format!("zero_seed:{}", n), 1);
        total.floor(&format!("verbatim:{}", n), 50);
        total.floor(&format!("seed_from_u64:{}", n), 50);
        total.floor(&format!("from_rng:{}", n), 50);
        total.floor(&format!("splitmix_zero_block:{}", n), 1);
    }
    for k in 0..5 {
        total.floor(&format!("leading_zero_blocks:{}", k), 10);
    }
    total.floor("all_zero_source", 10);
    total.floor("zero_blocks_then_failure", 100);
    total.floor("leading_zero_blocks:many", 100);
    total.floor("preset_block_as_data", 100);
    total
}
