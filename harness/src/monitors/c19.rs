//! C19: generators share no hidden state. Per-generator history equality:
//! every generator's outputs under interleaved, multi-threaded execution (with
//! migration between threads) must equal its solo replay. Send / Sync are
//! observed at run time and recorded per type.

use super::c10::{apply_ext, gen_history};
use super::{run_case, Only};
use crate::drive::*;
use crate::specs::*;
use crate::util::*;
use crate::with_spec;
use rand_core::RngCore;
use serde_json::json;
use std::sync::atomic::{AtomicUsize, Ordering};
use std::sync::Mutex;

// --- run-time Send / Sync probe (inherent const shadows the trait const) -----
pub struct Probe<T>(std::marker::PhantomData<T>);
pub trait ProbeFallback {
    const IS_SEND: bool = false;
    const IS_SYNC: bool = false;
}
impl<T> ProbeFallback for Probe<T> {}
impl<T: Send> Probe<T> {
    pub const IS_SEND: bool = true;
}
impl<T: Sync> Probe<T> {
    pub const IS_SYNC: bool = true;
}
pub trait ProbeCopyFallback {
    const IS_COPY: bool = false;
}
impl<T> ProbeCopyFallback for Probe<T> {}
impl<T: Copy> Probe<T> {
    pub const IS_COPY: bool = true;
}

type JitClosure = Box<dyn Fn() -> u64 + Send + Sync>;

/// (type name, is Send, is Sync) for every generator type, probed on the
/// concrete types (the idiom does not work through generics)
pub fn send_sync_table() -> Vec<(&'static str, bool, bool)> {
    use rand_xoshiro as x;
    macro_rules! row {
        ($t:ty, $n:expr) => {
            ($n, Probe::<$t>::IS_SEND, Probe::<$t>::IS_SYNC)
        };
    }
    vec![
        row!(x::Xoroshiro64Star, "Xoroshiro64Star"), row!(x::Xoroshiro64StarStar, "Xoroshiro64StarStar"),
        row!(x::Xoroshiro128Plus, "Xoroshiro128Plus"), row!(x::Xoroshiro128PlusPlus, "Xoroshiro128PlusPlus"),
        row!(x::Xoroshiro128StarStar, "Xoroshiro128StarStar"), row!(x::Xoshiro128Plus, "Xoshiro128Plus"),
        row!(x::Xoshiro128PlusPlus, "Xoshiro128PlusPlus"), row!(x::Xoshiro128StarStar, "Xoshiro128StarStar"),
        row!(x::Xoshiro256Plus, "Xoshiro256Plus"), row!(x::Xoshiro256PlusPlus, "Xoshiro256PlusPlus"),
        row!(x::Xoshiro256StarStar, "Xoshiro256StarStar"), row!(x::Xoshiro512Plus, "Xoshiro512Plus"),
        row!(x::Xoshiro512PlusPlus, "Xoshiro512PlusPlus"), row!(x::Xoshiro512StarStar, "Xoshiro512StarStar"),
        row!(x::SplitMix64, "SplitMix64"), row!(rand_xorshift::XorShiftRng, "XorShiftRng"),
        row!(rand_hc::Hc128Rng, "Hc128Rng"), row!(rand_hc::Hc128Core, "Hc128Core"),
        row!(rand_isaac::IsaacRng, "IsaacRng"), row!(rand_isaac::isaac::IsaacCore, "IsaacCore"),
        row!(rand_isaac::Isaac64Rng, "Isaac64Rng"), row!(rand_isaac::isaac64::Isaac64Core, "Isaac64Core"),
        row!(rand_jitter::JitterRng<JitClosure>, "JitterRng<Send+Sync timer>"),
        row!(rand_jitter::TimerError, "TimerError"),
    ]
}

// --- type-erased generator ---------------------------------------------------

pub trait DynGen {
    /// apply one operation, return a digest of its result
    fn op(&mut self, op: &Op) -> u64;
    /// read-only use through a shared reference (clone, ==, Debug)
    fn shared_probe(&self) -> u64;
}

struct Seeded<S: Spec>(S::R);
impl<S: Spec> DynGen for Seeded<S> {
    fn op(&mut self, op: &Op) -> u64 {
        let out = apply_ext::<S>(&mut self.0, op);
        let mut h = Fnv::new();
        h.str(&out.show());
        if let super::c05::Out::Bytes(b) = &out {
            h.bytes(b);
        }
        h.get()
    }
    fn shared_probe(&self) -> u64 {
        let c = self.0.clone();
        let mut h = Fnv::new();
        h.str(&format!("{:?}", c));
        h.u64(S::eq(&c, &self.0).map(|b| b as u64).unwrap_or(2));
        h.get()
    }
}

struct Jit(rand_jitter::JitterRng<JitClosure>);
impl DynGen for Jit {
    fn op(&mut self, op: &Op) -> u64 {
        if let Op::Aux(k) = op {
            // aux(0): the documented idiom set_rounds(test_timer()?); aux(1|2): timer_stats
            let mut h = Fnv::new();
            match k {
                0 => {
                    let res = self.0.test_timer();
                    h.str(&format!("{:?}", res));
                    if let Ok(rr) = res { self.0.set_rounds(rr); }
                }
                _ => h.u64(self.0.timer_stats(*k == 1) as u64),
            }
            return h.get();
        }
        let out = super::c05::apply(&mut self.0, op);
        let mut h = Fnv::new();
        h.str(&out.show());
        if let super::c05::Out::Bytes(b) = &out {
            h.bytes(b);
        }
        h.get()
    }
    fn shared_probe(&self) -> u64 {
        let mut h = Fnv::new();
        h.str(&format!("{:?}", self.0));
        h.get()
    }
}

/// moved between threads only if the run-time probe said the type is Send
struct Slot(Box<dyn DynGen>);
unsafe impl Send for Slot {}
unsafe impl Sync for Slot {}

#[derive(Clone)]
struct Plan {
    type_idx: usize, // N_TYPES = JitterRng on a private scripted timer
    /// 0 from_seed, 1 seed_from_u64, 2 from_rng, 3 try_from_rng
    ctor: u8,
    seed: Vec<u8>,
    x: u64,
    src: Vec<u8>,
    ops: Vec<Op>,
    script: Vec<u64>,
    tail: u64,
    /// None = leave the documented default of new_with_timer (64 rounds)
    rounds: Option<u8>,
}

fn build(plan: &Plan) -> Slot {
    if plan.type_idx == N_TYPES {
        let t = ScriptedTimer::new(plan.script.clone(), plan.tail);
        let mut g = rand_jitter::JitterRng::new_with_timer(Box::new(t.closure()) as JitClosure);
        if let Some(r) = plan.rounds {
            g.set_rounds(r);
        }
        Slot(Box::new(Jit(g)))
    } else {
        with_spec!(plan.type_idx, S => build_seeded::<S>(plan))
    }
}

fn build_seeded<S: Spec>(plan: &Plan) -> Slot {
    use rand_core::SeedableRng;
    let g: S::R = match plan.ctor {
        0 => S::from_seed(&plan.seed),
        1 => S::R::seed_from_u64(plan.x),
        2 => {
            let mut s = SourceRng::new(plan.src.clone());
            S::R::from_rng(&mut s)
        }
        _ => {
            let mut s = FallibleSource(SourceRng::new(plan.src.clone()));
            S::R::try_from_rng(&mut s).expect("infallible source")
        }
    };
    Slot(Box::new(Seeded::<S>(g)))
}

/// what the documented procedure says a scripted-timer JitterRng returns
/// (only for plans without aux ops); independent of any process-wide state
fn jitter_model_log(plan: &Plan) -> Option<Vec<u64>> {
    if plan.type_idx != N_TYPES || plan.ops.iter().any(|o| matches!(o, Op::Aux(_))) {
        return None;
    }
    use crate::models::jitter::{CollectStats, Jitter};
    let t = ScriptedTimer::new(plan.script.clone(), plan.tail);
    let mut cur = t.model_cursor();
    let mut m = Jitter::new();
    if let Some(r) = plan.rounds {
        m.rounds = r;
    }
    let mut st = CollectStats::default();
    Some(plan.ops.iter().map(|op| {
        let out = match op {
            Op::U32 => super::c05::Out::U32(m.next_u32(&mut cur, &mut st)),
            Op::U64 => super::c05::Out::U64(m.next_u64(&mut cur, &mut st)),
            Op::Fill(n) => super::c05::Out::Bytes(m.fill_bytes(*n, &mut cur, &mut st)),
            _ => unreachable!(),
        };
        let mut h = Fnv::new();
        h.str(&out.show());
        if let super::c05::Out::Bytes(b) = &out {
            h.bytes(b);
        }
        h.get()
    }).collect())
}

fn gen_plan(p: &mut Prng, same_as: Option<&Plan>) -> Plan {
    // neighbours of the same type with equal seeds are the interesting case
    // for a mis-keyed shared cache
    if let Some(o) = same_as {
        // a neighbour of the same type whose seed differs by a pattern that cancels in
        // sums / xors / Fletcher-type checksums (a cache keyed on such a digest collides)
        if o.type_idx < N_TYPES && o.seed.len() >= 8 && p.chance(1, 4) {
            let mut q = o.clone();
            q.ctor = 0;
            let words = q.seed.len() / 4;
            let sh = p.below(31);
            let d = 1 + p.below(1 << sh) as u32;
            let i = p.below(words as u64) as usize;
            let pattern: &[i64] = match p.below(4) { 0 => &[1, -1], 1 => &[1, -2, 1], 2 => &[1, -3, 3, -1], _ => &[1, 0, -1] };
            for (k, c) in pattern.iter().enumerate() {
                let j = (i + k) % words;
                let v = u32::from_le_bytes([q.seed[4 * j], q.seed[4 * j + 1], q.seed[4 * j + 2], q.seed[4 * j + 3]]);
                q.seed[4 * j..4 * j + 4].copy_from_slice(&v.wrapping_add((*c * d as i64) as u32).to_le_bytes());
            }
            let mut o2 = o.clone();
            o2.ctor = 0;
            let _ = o2;
            q.ops = gen_ops(p, q.type_idx, q.rounds.is_none());
            return q;
        }
        if p.chance(1, 3) {
            let mut q = o.clone();
            if p.chance(1, 2) {
                q.ops = gen_ops(p, q.type_idx, q.rounds.is_none());
            }
            if q.ops.iter().any(|o| matches!(o, Op::Aux(0))) && q.script.len() < 1700 {
                q.script = gen_script(p, 0, 1700);
            }
            return q;
        }
    }
    // JitterRng and the ISAAC generators (largest constructors) are over-represented
    let ti = match p.below(10) { 0 | 1 => N_TYPES, 2 => IDX_ISAAC, 3 => IDX_ISAAC64, _ => p.below(N_TYPES as u64 + 1) as usize };
    let seed = if ti < N_TYPES {
        with_spec!(ti, S => {
            if p.chance(1, 12) { vec![0u8; S::SEED_LEN] } else { gen_seed(p, S::SEED_LEN, (S::FAMILY.native_bits() / 8) as usize, true).1 }
        })
    } else {
        vec![]
    };
    let rounds = match p.below(4) { 0 => None, 1 => Some(1), _ => Some(2) };
    let ops = gen_ops(p, ti, rounds.is_none());
    let with_tt = ops.iter().any(|o| matches!(o, Op::Aux(0)));
    // a test_timer-passing script: jittery, long enough for the 1601 probe readings
    // small, often coinciding deltas (tiny / coarse clocks) as well as jittery ones:
    // stuck decisions are where stale shared state would show
    let cls = if with_tt { 0 } else { *p.pick(&[0usize, 0, 8, 8, 11, 1]) };
    let script = gen_script(p, cls, if with_tt { 1700 } else { 96 });
    // leading all-zero source blocks: 0..2, and now and then a run beyond 2^16 blocks (a
    // bounded or process-wide count of redraws would make LATER constructions differ)
    let zeros = if p.chance(1, 10) && !crate::util::REDUCED.load(std::sync::atomic::Ordering::Relaxed) {
        *p.pick(&[65_536usize, 65_537, 100_000, 30_000, 40_000]) * 16
    } else {
        p.below(3) as usize * 16
    };
    let mut src = vec![0u8; zeros];
    src.extend(p.bytes(2100));
    Plan { type_idx: ti, ctor: p.below(4) as u8, seed, x: p.u64(), src, ops, script, tail: p.u64(), rounds }
}

fn gen_ops(p: &mut Prng, ti: usize, default_rounds: bool) -> Vec<Op> {
    let n = p.range(6, 40) as usize;
    if ti == N_TYPES {
        let n = if default_rounds { n.min(4) } else { n.min(12) };
        let mut v: Vec<Op> = (0..n).map(|_| match p.below(3) { 0 => Op::U32, 1 => Op::U64, _ => Op::Fill(p.below(if default_rounds { 9 } else { 18 }) as usize) }).collect();
        // sometimes the documented start-up idiom set_rounds(test_timer()?) and timer_stats
        if !default_rounds && p.chance(1, 3) {
            v.insert(0, Op::Aux(0));
        }
        if !default_rounds && p.chance(1, 4) {
            let at = p.below(v.len() as u64 + 1) as usize;
            v.insert(at, Op::Aux(1 + p.below(2) as u8));
        }
        v
    } else {
        with_spec!(ti, S => gen_history::<S>(p, n))
    }
}

fn solo(plan: &Plan) -> Vec<u64> {
    let mut g = build(plan);
    plan.ops.iter().map(|op| g.0.op(op)).collect()
}

fn type_name(ti: usize) -> &'static str {
    if ti == N_TYPES { "JitterRng" } else { TYPE_NAMES[ti] }
}

fn compare(plans: &[Plan], solo_logs: &[Vec<u64>], logs: &[Vec<u64>], mode: &str, schedule_hash: u64, sub: &str, id: u64, r: &mut Report) -> bool {
    for (g, (a, b)) in solo_logs.iter().zip(logs.iter()).enumerate() {
        r.evals(a.len() as u64);
        if a != b {
            let k = a.iter().zip(b.iter()).position(|(x, y)| x != y).unwrap_or(a.len().min(b.len()));
            r.violation(
                format!("{}:stream_depends_on_other_instances:{}", type_name(plans[g].type_idx), mode),
                sub, id,
                json!({"mode": mode, "generator": g, "type": type_name(plans[g].type_idx), "seed": hex(&plans[g].seed),
                       "ops": show_ops(&plans[g].ops), "first_differing_op": k, "schedule_hash": hx64(schedule_hash),
                       "all_types": plans.iter().map(|p| type_name(p.type_idx)).collect::<Vec<_>>()}),
            );
            return false;
        }
    }
    true
}

fn plans_for(id: u64) -> (Prng, Vec<Plan>) {
    let mut p = Prng::new(id);
    let g_count = p.range(3, 10) as usize;
    let mut plans: Vec<Plan> = Vec::new();
    for _ in 0..g_count {
        let prev = plans.last().cloned();
        plans.push(gen_plan(&mut p, prev.as_ref()));
    }
    (p, plans)
}

/// child mode of the monitor binary: run the plans of case `id` in the given
/// order in THIS (fresh) process and print `<plan index> <log digest>` lines
pub fn child_main(id: u64, order: &[usize]) {
    let (_, plans) = plans_for(id);
    for &g in order {
        let log = solo(&plans[g]);
        let mut h = Fnv::new();
        for v in log {
            h.u64(v);
        }
        println!("{} {}", g, h.get());
    }
}

fn case(sub: &str, id: u64, threads: usize, r: &mut Report) {
    let (mut p, plans) = plans_for(id);
    let g_count = plans.len();
    // phase 1: solo replay, one generator at a time
    let solo_logs: Vec<Vec<u64>> = plans.iter().map(solo).collect();
    // solo replay is itself reproducible
    r.eval();
    if plans.iter().map(solo).collect::<Vec<_>>() != solo_logs {
        r.violation("solo_replay_not_reproducible".into(), sub, id, json!({"types": plans.iter().map(|p| type_name(p.type_idx)).collect::<Vec<_>>()}));
        return;
    }
    // scripted-timer JitterRng: the solo log must also be what the documented
    // procedure yields (independent of anything cached process-wide)
    for (g, pl) in plans.iter().enumerate() {
        if let Some(want) = jitter_model_log(pl) {
            r.eval();
            if want != solo_logs[g] {
                let k = want.iter().zip(solo_logs[g].iter()).position(|(a, b)| a != b).unwrap_or(0);
                r.violation("JitterRng:stream_depends_on_process_wide_state".into(), sub, id, json!({
                    "generator": g, "rounds_set": format!("{:?}", pl.rounds), "ops": show_ops(&pl.ops), "first_differing_op": k,
                    "note": "a scripted-timer JitterRng run alone does not return what the documented procedure yields on its readings with the documented default / configured rounds"}));
                return;
            }
            r.cov("jitter_solo_vs_model");
        }
    }
    let table = send_sync_table();
    let sendable = |ti: usize| -> bool {
        let n = type_name(ti);
        table.iter().find(|(name, _, _)| name.starts_with(n)).map(|(_, s, _)| *s).unwrap_or(false)
    };
    match sub {
        // strict scripted interleaving on ONE thread: construction and operations
        // of all generators interleaved at a chosen granularity
        "interleave" => {
            let gran = *p.pick(&[1usize, 1, 2, 3, 7]);
            let mut gens: Vec<Option<Slot>> = (0..g_count).map(|_| None).collect();
            let mut logs: Vec<Vec<u64>> = vec![Vec::new(); g_count];
            let mut cursor = vec![0usize; g_count];
            let mut sched = Fnv::new();
            loop {
                let live: Vec<usize> = (0..g_count).filter(|&g| cursor[g] < plans[g].ops.len()).collect();
                if live.is_empty() { break; }
                let g = live[p.below(live.len() as u64) as usize];
                sched.u64(g as u64);
                if gens[g].is_none() {
                    gens[g] = Some(build(&plans[g])); // constructions interleaved too
                }
                for _ in 0..gran {
                    if cursor[g] < plans[g].ops.len() {
                        let v = gens[g].as_mut().unwrap().0.op(&plans[g].ops[cursor[g]]);
                        logs[g].push(v);
                        cursor[g] += 1;
                    }
                }
            }
            if compare(&plans, &solo_logs, &logs, "one_thread_interleaved", sched.get(), sub, id, r) {
                r.distinct(sched.get());
                r.cov("interleavings_one_thread");
            }
        }
        // scripted turns on several threads: a turn token decides which thread
        // advances which generator; generators migrate between threads
        "turns" => {
            if !plans.iter().all(|pl| sendable(pl.type_idx)) {
                r.note("a generator type is not Send: multi-threaded modes skipped (reported by the Send/Sync probe)".into());
                return;
            }
            let n_threads = p.range(2, threads.max(2) as u64).min(8) as usize;
            let mut turns: Vec<(usize, usize, usize)> = Vec::new(); // (thread, generator, count)
            let mut left: Vec<usize> = plans.iter().map(|p| p.ops.len()).collect();
            let mut sched = Fnv::new();
            while left.iter().any(|&l| l > 0) {
                let live: Vec<usize> = (0..g_count).filter(|&g| left[g] > 0).collect();
                let g = live[p.below(live.len() as u64) as usize];
                let c = (p.range(1, 5) as usize).min(left[g]);
                let t = p.below(n_threads as u64) as usize;
                left[g] -= c;
                turns.push((t, g, c));
                sched.u64((t * 1000 + g * 10 + c) as u64);
            }
            // generators are constructed inside the thread that takes their first turn
            let slots: Vec<Mutex<Option<Slot>>> = plans.iter().map(|_| Mutex::new(None)).collect();
            let logs: Vec<Mutex<Vec<u64>>> = (0..g_count).map(|_| Mutex::new(Vec::new())).collect();
            let token = AtomicUsize::new(0);
            let migrations = AtomicUsize::new(0);
            let last_thread: Vec<AtomicUsize> = (0..g_count).map(|_| AtomicUsize::new(usize::MAX)).collect();
            std::thread::scope(|s| {
                for t in 0..n_threads {
                    let (turns, slots, logs, token, plans, migrations, last_thread) = (&turns, &slots, &logs, &token, &plans, &migrations, &last_thread);
                    s.spawn(move || {
                        for (k, &(tt, g, c)) in turns.iter().enumerate() {
                            if tt != t { continue; }
                            while token.load(Ordering::Acquire) != k { std::thread::yield_now(); }
                            {
                                let mut slot = slots[g].lock().unwrap();
                                let mut log = logs[g].lock().unwrap();
                                if slot.is_none() {
                                    *slot = Some(build(&plans[g]));
                                }
                                let gen = slot.as_mut().unwrap();
                                for _ in 0..c {
                                    let i = log.len();
                                    log.push(gen.0.op(&plans[g].ops[i]));
                                }
                                let prev = last_thread[g].swap(t, Ordering::Relaxed);
                                if prev != usize::MAX && prev != t { migrations.fetch_add(1, Ordering::Relaxed); }
                            }
                            token.store(k + 1, Ordering::Release);
                        }
                    });
                }
            });
            let logs: Vec<Vec<u64>> = logs.into_iter().map(|m| m.into_inner().unwrap()).collect();
            let (solo_cmp, logs_cmp) = (solo_logs.clone(), logs);
            if compare(&plans, &solo_cmp, &logs_cmp, "threads_scripted_turns", sched.get(), sub, id, r) {
                r.distinct(sched.get());
                r.cov("interleavings_scripted_threads");
                r.covn("migrations", migrations.load(Ordering::Relaxed) as u64);
            }
        }
        // free-running stress: real parallelism, try-lock picking, plus shared
        // read-only use and concurrent JitterRng::new() (touches JITTER_ROUNDS)
        "stress" => {
            let n_threads = threads.max(2);
            let slots: Vec<Mutex<(Option<Slot>, Vec<u64>)>> = plans.iter().map(|_| Mutex::new((None, Vec::new()))).collect();
            let shared: Vec<Slot> = plans.iter().map(build).collect();
            let shared_expect: Vec<u64> = shared.iter().map(|s| s.0.shared_probe()).collect();
            let done = AtomicUsize::new(0);
            let migrations = AtomicUsize::new(0);
            let bad_shared = AtomicUsize::new(0);
            let last_thread: Vec<AtomicUsize> = (0..g_count).map(|_| AtomicUsize::new(usize::MAX)).collect();
            let sched = Mutex::new(Fnv::new());
            let all_sendable = plans.iter().all(|pl| sendable(pl.type_idx));
            std::thread::scope(|s| {
                for t in 0..n_threads {
                    let (slots, plans, done, migrations, last_thread, sched, shared, shared_expect, bad_shared) =
                        (&slots, &plans, &done, &migrations, &last_thread, &sched, &shared, &shared_expect, &bad_shared);
                    s.spawn(move || {
                        if !all_sendable && t > 0 { return; }
                        let mut q = Prng::derive(id, t as u64, 7);
                        let mut idle = 0;
                        while done.load(Ordering::Acquire) < plans.len() && idle < 200_000 {
                            let g = q.below(plans.len() as u64) as usize;
                            // read-only use of a shared instance from several threads
                            if q.chance(1, 8) {
                                if shared[g].0.shared_probe() != shared_expect[g] { bad_shared.fetch_add(1, Ordering::Relaxed); }
                            }
                            if t % 5 == 4 && q.chance(1, 50) {
                                // real-clock JitterRng next to the scripted ones
                                if let Ok(mut j) = rand_jitter::JitterRng::new() { let _ = j.next_u32(); }
                            }
                            if let Ok(mut guard) = slots[g].try_lock() {
                                let (slot, log) = &mut *guard;
                                let n = plans[g].ops.len();
                                if slot.is_none() {
                                    *slot = Some(build(&plans[g]));
                                }
                                if log.len() < n {
                                    let burst = q.range(1, 4) as usize;
                                    for _ in 0..burst {
                                        let i = log.len();
                                        if i >= n { break; }
                                        log.push(slot.as_mut().unwrap().0.op(&plans[g].ops[i]));
                                    }
                                    if log.len() == n { done.fetch_add(1, Ordering::AcqRel); }
                                    let prev = last_thread[g].swap(t, Ordering::Relaxed);
                                    if prev != usize::MAX && prev != t { migrations.fetch_add(1, Ordering::Relaxed); }
                                    sched.lock().unwrap().u64((t * 100 + g) as u64);
                                    idle = 0;
                                } else { idle += 1; }
                            } else { idle += 1; std::thread::yield_now(); }
                        }
                    });
                }
            });
            let logs: Vec<Vec<u64>> = slots.into_iter().map(|m| m.into_inner().unwrap().1).collect();
            let h = sched.into_inner().unwrap().get();
            r.eval();
            if bad_shared.load(Ordering::Relaxed) > 0 {
                r.violation("shared_reference_use_not_stable".into(), sub, id, json!({"types": plans.iter().map(|p| type_name(p.type_idx)).collect::<Vec<_>>()}));
                return;
            }
            if logs.iter().zip(plans.iter()).any(|(l, p)| l.len() != p.ops.len()) {
                r.inconclusive("stress run did not finish all histories (scheduler starvation)".into());
                return;
            }
            if compare(&plans, &solo_logs, &logs, "threads_free_running", h, sub, id, r) {
                r.distinct(h);
                r.cov("interleavings_free_running");
                r.covn("migrations", migrations.load(Ordering::Relaxed) as u64);
            }
        }
        // many constructions of ONE type racing on all threads (released by a
        // barrier), every constructor route; each result must equal the
        // generator built alone from the same input
        "construct_race" => {
            if !plans.iter().all(|pl| sendable(pl.type_idx)) {
                return;
            }
            let ti = plans[0].type_idx;
            let n_threads = threads.max(2);
            let per = 16usize;
            let probe_ops = vec![Op::U64, Op::U32, Op::Fill(9), Op::U64];
            let mut all: Vec<Vec<Plan>> = Vec::new();
            for _ in 0..n_threads {
                let mut v = Vec::new();
                for _ in 0..per {
                    let mut pl = gen_plan(&mut p, None);
                    while pl.type_idx != ti {
                        pl = gen_plan(&mut p, None);
                    }
                    pl.ops = probe_ops.clone();
                    if ti != N_TYPES && p.chance(3, 4) {
                        pl.ctor = 2 + p.below(2) as u8; // from_rng / try_from_rng
                    }
                    if ti == N_TYPES { pl.rounds = Some(1); }
                    v.push(pl);
                }
                all.push(v);
            }
            let expected: Vec<Vec<Vec<u64>>> = all.iter().map(|v| v.iter().map(solo).collect()).collect();
            let barrier = std::sync::Barrier::new(n_threads);
            let bad = Mutex::new(Vec::new());
            std::thread::scope(|s| {
                for t in 0..n_threads {
                    let (all, expected, barrier, bad) = (&all, &expected, &barrier, &bad);
                    s.spawn(move || {
                        barrier.wait();
                        for (k, pl) in all[t].iter().enumerate() {
                            let got = solo(pl);
                            if got != expected[t][k] {
                                bad.lock().unwrap().push((t, k));
                            }
                        }
                    });
                }
            });
            let bad = bad.into_inner().unwrap();
            r.evals((n_threads * per) as u64);
            if let Some(&(t, k)) = bad.first() {
                let pl = &all[t][k];
                let ctor_name = ["from_seed", "seed_from_u64", "from_rng", "try_from_rng"][pl.ctor as usize % 4];
                r.violation(format!("{}:construction_depends_on_concurrent_constructions", type_name(ti)), sub, id, json!({
                    "type": type_name(ti), "constructor": ctor_name,
                    "threads": n_threads, "wrong_generators": bad.len(), "of": n_threads * per}));
                return;
            }
            r.cov("construction_races");
            r.cov(&format!("construct_race:{}", type_name(ti)));
            r.distinct(hkey(&[&"construct_race", &id]));
        }
        // process-level isolation: every plan run ALONE in a fresh process must give
        // the same log as when it runs after the others, in any order, in one process
        "process_order" => {
            let exe = match std::env::current_exe() { Ok(e) => e, Err(_) => { r.inconclusive("current_exe unavailable".into()); return; } };
            let run_child = |order: &[usize]| -> Option<Vec<(usize, u64)>> {
                let arg = order.iter().map(|k| k.to_string()).collect::<Vec<_>>().join(",");
                let out = std::process::Command::new(&exe).args(["--c19-child", &id.to_string(), &arg]).output().ok()?;
                if !out.status.success() { return None; }
                Some(String::from_utf8_lossy(&out.stdout).lines().filter_map(|l| {
                    let mut it = l.split(' ');
                    Some((it.next()?.parse().ok()?, it.next()?.parse().ok()?))
                }).collect())
            };
            let mut alone: Vec<u64> = Vec::new();
            for g in 0..g_count {
                match run_child(&[g]) {
                    Some(v) if v.len() == 1 => alone.push(v[0].1),
                    _ => { r.inconclusive("process_order: child process failed".into()); return; }
                }
            }
            for round in 0..3 {
                let mut order: Vec<usize> = (0..g_count).collect();
                match round {
                    0 => {}
                    1 => order.reverse(),
                    _ => { for i in (1..g_count).rev() { order.swap(i, p.below(i as u64 + 1) as usize); } }
                }
                let got = match run_child(&order) { Some(v) => v, None => { r.inconclusive("process_order: child process failed".into()); return; } };
                for (g, d) in got {
                    r.eval();
                    if alone[g] != d {
                        r.violation(format!("{}:stream_depends_on_earlier_instances_in_the_process", type_name(plans[g].type_idx)), sub, id, json!({
                            "generator": g, "type": type_name(plans[g].type_idx), "constructor": plans[g].ctor, "seed": hex(&plans[g].seed),
                            "order_in_process": order, "types_in_order": order.iter().map(|&k| type_name(plans[k].type_idx)).collect::<Vec<_>>(),
                            "note": "log digest of this generator differs between a fresh process and a process in which the listed instances ran first"}));
                        return;
                    }
                }
            }
            r.cov("process_orders");
            r.distinct(hkey(&[&"process_order", &id]));
        }
        _ => r.inconclusive(format!("unknown sub-monitor {} for C19", sub)),
    }
    for pl in &plans {
        r.cov(&format!("type:{}", type_name(pl.type_idx)));
    }
    r.covn("generators", g_count as u64);
    r.covn("ops", plans.iter().map(|p| p.ops.len() as u64).sum());
    r.sample(json!({"mode": sub, "generators": plans.iter().map(|p| format!("{}:{}ops", type_name(p.type_idx), p.ops.len())).collect::<Vec<_>>()}));
}

pub fn run(ctx: &Ctx, only: Option<&Only>) -> Report {
    if let Some(o) = only {
        let mut r = Report::new();
        let sub = o.sub.to_string();
        let th = ctx.threads;
        run_case(o.sub, o.id, &mut r, &|id, r: &mut Report| case(&sub, id, th, r));
        return r;
    }
    let mut total = Report::new();
    // Send / Sync observed at run time
    for (name, is_send, is_sync) in send_sync_table() {
        total.eval();
        total.cov(&format!("send_sync:{}:{}:{}", name, is_send, is_sync));
        if !is_send || !is_sync {
            total.violation(format!("{}:not_send_or_sync", name), "send_sync", 0, json!({"type": name, "Send": is_send, "Sync": is_sync}));
        }
    }
    let secs = if ctx.tier_thorough { ctx.budget_s } else { 0.0 };
    // "interleave" runs its cases on the worker pool (each case is single-threaded)
    total.merge(super::drive(ctx, "interleave", 6_000, secs * 0.3, |id, r| case("interleave", id, 1, r)));
    // the multi-threaded modes spawn their own threads: run them from one driver thread
    let one = Ctx { threads: 2, ..ctx.clone() };
    let th = ctx.threads;
    total.merge(super::drive(&one, "turns", 600, secs * 0.3, |id, r| case("turns", id, th, r)));
    total.merge(super::drive(&one, "stress", 300, secs * 0.3, |id, r| case("stress", id, th, r)));
    total.merge(super::drive(&one, "construct_race", 240, secs * 0.1, |id, r| case("construct_race", id, th, r)));
    // (re-executes the monitor as child processes: not under the interpreter / sanitizers)
    if ctx.scale >= 1.0 {
        total.merge(super::drive(ctx, "process_order", 96, secs * 0.1, |id, r| case("process_order", id, 1, r)));
    }
    if ctx.scale >= 1.0 {
        total.floor("interleavings_one_thread", 1000);
        total.floor("interleavings_scripted_threads", 100);
        total.floor("interleavings_free_running", 50);
        total.floor("migrations", 1000);
        total.floor("construction_races", 50);
        total.floor("process_orders", 50);
        total.floor("construct_race:IsaacRng", 3);
        total.floor("construct_race:Isaac64Rng", 3);
        total.floor("jitter_solo_vs_model", 100);
        for n in TYPE_NAMES.iter().chain(["JitterRng"].iter()) {
            total.floor(&format!("type:{}", n), 20);
        }
    }
    total
}
