//! One monitor per property. Every monitor exposes
//! `run(ctx, only)`: the whole workload, or (replay) exactly one case.
use crate::util::{Ctx, Report};

pub mod streams; // C01–C04
pub mod linear;
pub mod c05;
pub mod c06;
pub mod c07;
pub mod c08;
pub mod c09;
pub mod c10;
pub mod c11;
pub mod jit; // C12, C13, C15, C16 + jitter helpers
pub mod c14;
pub mod c17;
pub mod c19;

pub struct Only<'a> {
    pub sub: &'a str,
    pub id: u64,
    pub explicit: Option<&'a serde_json::Value>,
}

pub fn self_tests() -> Result<(), String> {
    crate::models::vigna::self_test()?;
    crate::models::hc128::self_test()?;
    crate::models::isaac::self_test()?;
    crate::models::jitter::self_test()?;
    Ok(())
}

pub fn run(prop: &str, ctx: &Ctx, only: Option<&Only>) -> Option<Report> {
    Some(match prop {
        "C01" => streams::run(1, ctx, only),
        "C02" => streams::run(2, ctx, only),
        "C03" => streams::run(3, ctx, only),
        "C04" => streams::run(4, ctx, only),
        "C05" => c05::run(ctx, only),
        "C06" => c06::run(ctx, only),
        "C07" => c07::run(ctx, only),
        "C08" => c08::run(ctx, only),
        "C09" => c09::run(ctx, only),
        "C10" => c10::run(ctx, only),
        "C11" => c11::run(ctx, only),
        "C12" => jit::run_c12(ctx, only),
        "C13" => jit::run_c13(ctx, only),
        "C14" => c14::run(ctx, only),
        "C15" => jit::run_c15(ctx, only),
        "C16" => jit::run_c16(ctx, only),
        "C17" => c17::run(ctx, only),
        "C19" => c19::run(ctx, only),
        _ => return None,
    })
}

/// id of the i-th random case of thread t (a pure function of the run seed)
pub fn case_id(ctx: &Ctx, sub: &str, t: usize, i: u64) -> u64 {
    let mut h = crate::util::Fnv::new();
    h.str(sub);
    crate::util::Prng::derive(ctx.seed ^ h.get(), t as u64, i).u64()
}

/// Drive `case` over the planned ids: `n_total` cases split over the threads
/// (quick), or until `secs` have elapsed (thorough, when `secs > 0`).
pub fn drive<F>(ctx: &Ctx, sub: &str, n_total: u64, secs: f64, case: F) -> Report
where
    F: Fn(u64, &mut Report) + Sync,
{
    let threads = ctx.threads.max(1);
    let start = std::time::Instant::now();
    let n_total = if ctx.scale == 1.0 { n_total } else { ((n_total as f64 * ctx.scale).ceil() as u64).max(1) };
    let secs = secs * ctx.scale.min(1.0);
    ctx.progress(sub);
    crate::util::par(threads, |t, r| {
        let per = (n_total + threads as u64 - 1) / threads as u64;
        let mut i = 0u64;
        loop {
            if secs > 0.0 {
                if i >= per && start.elapsed().as_secs_f64() >= secs {
                    break;
                }
            } else if i >= per {
                break;
            }
            let id = case_id(ctx, sub, t, i);
            run_case(sub, id, r, &case);
            r.cases += 1;
            i += 1;
        }
    })
}

/// Run one case; a panic that escapes it is attributed: raised inside the
/// crates under test => violation (the operation did not return its value);
/// raised in harness code => inconclusive.
pub fn run_case<F>(sub: &str, id: u64, r: &mut Report, case: &F)
where
    F: Fn(u64, &mut Report),
{
    let mut local = Report::new();
    let res = crate::util::guarded(|| case(id, &mut local));
    r.merge(local);
    if let Err(c) = res {
        if c.location.contains("rand_") || c.location.contains("/repo/") {
            r.violation(
                format!("{}:{}", sub, c.signature()),
                sub,
                id,
                serde_json::json!({"panic_location": c.location, "panic_message": c.message}),
            );
        } else {
            r.inconclusive(format!("harness panic in {} at {}: {} (first case id {})", sub, c.location, c.message, id).split(" (first case id").next().unwrap().to_string());
            r.note(format!("harness panic in {} case {}", sub, id));
        }
    }
}
