//! C14: no public operation panics, overflows or indexes out of bounds.
//! Every operation runs under catch_unwind in a build with overflow checks and
//! debug assertions; a panic is identified by (file, message, entry point).
//! The same workload is re-run (reduced) under ASan and Miri by the driver.

use super::c10::{apply_ext, gen_history};
use super::jit::JOp;
use super::{drive, run_case, Only};
use crate::drive::*;
use crate::specs::*;
use crate::util::*;
use crate::with_spec;
use rand_core::{RngCore, SeedableRng};
use rand_jitter::JitterRng;
use serde_json::{json, Value};

fn report_panic(c: &Caught, entry: &str, detail: Value, sub: &str, id: u64, r: &mut Report) {
    let mut d = detail;
    d["panic_location"] = json!(c.location);
    d["panic_message"] = json!(c.message);
    d["entry_point"] = json!(entry);
    r.violation(format!("{}:via={}", c.signature(), entry), sub, id, d);
}

fn hostile_len(p: &mut Prng, block_bytes: usize) -> usize {
    match p.below(14) {
        0..=5 => p.below(71) as usize,
        6 => block_bytes.saturating_sub(1),
        7 => block_bytes,
        8 => block_bytes + 1,
        9 => 1024,
        10 => 2048,
        11 => 4097,
        12 => 0,
        _ => if p.chance(1, 50) { 1 << 20 } else { 3 * block_bytes + 5 },
    }
}

fn seeded_case<S: Spec>(sub: &str, id: u64, r: &mut Report) {
    let mut p = Prng::new(id);
    let wb = (S::FAMILY.native_bits() / 8) as usize;
    let bb = S::FAMILY.block_words() * wb;
    // --- constructors
    let (class, seed) = gen_seed(&mut p, S::SEED_LEN, wb, true);
    let seed = if p.chance(1, 20) { vec![0u8; S::SEED_LEN] } else { seed };
    let mut g = match guarded(|| S::from_seed(&seed)) {
        Ok(g) => g,
        Err(c) => return report_panic(&c, "from_seed", json!({"type": S::NAME, "seed": hex(&seed)}), sub, id, r),
    };
    r.eval();
    let x = super::c08::special_u64(&mut p, id % 12);
    match guarded(|| S::R::seed_from_u64(x)) {
        Ok(h) => { if p.chance(1, 4) { g = h; } }
        Err(c) => return report_panic(&c, "seed_from_u64", json!({"type": S::NAME, "x": hx64(x)}), sub, id, r),
    }
    r.eval();
    // hostile source: leading zero blocks, then data, then the fixed tail pattern
    let zeros = p.below(4) as usize * S::SEED_LEN;
    let mut data = vec![0u8; zeros];
    let extra = p.below(3000) as usize;
    data.extend(p.bytes(extra));
    let d2 = data.clone();
    match guarded(|| { let mut s = SourceRng::new(d2); S::R::from_rng(&mut s) }) {
        Ok(h) => { if p.chance(1, 4) { g = h; } }
        Err(c) => return report_panic(&c, "from_rng", json!({"type": S::NAME, "source_len": data.len(), "leading_zero_bytes": zeros}), sub, id, r),
    }
    r.eval();
    let d3 = data.clone();
    let fail = if p.chance(1, 2) { Some(p.below(4) as usize) } else { None };
    match guarded(|| { let mut s = SourceRng::new(d3); s.fail_from = fail; s.scribble = fail.map(|f| f % 2 == 0).unwrap_or(true); let mut f = FallibleSource(s); S::R::try_from_rng(&mut f).ok() }) {
        Ok(Some(h)) => { if p.chance(1, 4) { g = h; } }
        Ok(None) => {}
        Err(c) => return report_panic(&c, "try_from_rng", json!({"type": S::NAME, "fail_from_call": format!("{:?}", fail)}), sub, id, r),
    }
    r.eval();
    // --- history with hostile lengths, jumps, clone, eq, Debug, serde round trip
    let n_ops = p.range(4, 40) as usize;
    let mut ops: Vec<Op> = Vec::new();
    for _ in 0..n_ops {
        let op = match p.below(10) {
            0..=2 => Op::U32,
            3..=4 => Op::U64,
            5..=7 => Op::Fill(hostile_len(&mut p, bb)),
            _ => gen_history::<S>(&mut p, 1).pop().unwrap(),
        };
        ops.push(op.clone());
        let res = guarded(|| apply_ext::<S>(&mut g, &op));
        r.eval();
        if let Err(c) = res {
            let entry = op.show().split('(').next().unwrap().to_string();
            return report_panic(&c, &entry, json!({"type": S::NAME, "seed": hex(&seed), "ops": show_ops(&ops)}), sub, id, r);
        }
        if p.chance(1, 8) {
            let res = guarded(|| {
                let c = g.clone();
                let _ = S::eq(&c, &g);
                let _ = format!("{:?} {:#?}", c, c);
                if let Some(b) = S::bincode(&c) {
                    let _ = S::from_bincode(&b);
                    let _ = S::from_json(&S::json(&c).unwrap());
                }
            });
            r.eval();
            if let Err(c) = res {
                return report_panic(&c, "clone/eq/debug/serde", json!({"type": S::NAME, "seed": hex(&seed), "ops": show_ops(&ops)}), sub, id, r);
            }
        }
    }
    r.distinct(hkey(&[&S::NAME, &seed, &show_ops(&ops)]));
    r.cov(&format!("type:{}", S::NAME));
    r.cov(&format!("seed_class:{}", class));
    r.sample(json!({"type": S::NAME, "seed": hex(&seed), "ops": show_ops(&ops)}));
}

/// explicit jitter case: {"readings":[...], "tail_seed":"..", "rounds":r, "ops":["u64","test_timer",...]}
fn jitter_ops_from(v: &Value) -> Option<(Vec<u64>, u64, u8, Vec<String>)> {
    let readings: Vec<u64> = v["readings"].as_array()?.iter().map(|x| match x {
        Value::String(s) => s.parse().unwrap(),
        n => n.as_u64().unwrap(),
    }).collect();
    let tail = v["tail_seed"].as_str().map(|s| s.parse().unwrap()).unwrap_or(0);
    let rounds = v["rounds"].as_u64().unwrap_or(64) as u8;
    let ops = v["ops"].as_array()?.iter().map(|o| o.as_str().unwrap().to_string()).collect();
    Some((readings, tail, rounds, ops))
}

fn jitter_run(readings: Vec<u64>, tail: u64, rounds: u8, ops: &[String], class: &str, sub: &str, id: u64, r: &mut Report) {
    let timer = ScriptedTimer::new(readings, tail);
    let mut g = JitterRng::new_with_timer(timer.closure());
    g.set_rounds(rounds.max(1));
    for (i, o) in ops.iter().enumerate() {
        let arg = || o[o.find('(').unwrap() + 1..o.len() - 1].to_string();
        let entry = o.split('(').next().unwrap().to_string();
        let res = guarded(|| {
            match entry.as_str() {
                "u32" => { g.next_u32(); }
                "u64" => { g.next_u64(); }
                "fill" => { let mut b = vec![0u8; arg().parse().unwrap()]; g.fill_bytes(&mut b); }
                "timer_stats" => { g.timer_stats(arg() == "true"); }
                "set_rounds" => { g.set_rounds(arg().parse().unwrap()); }
                "test_timer" => {
                    // the documented idiom; Ok(0) tripping the assertion is a panic of a public operation
                    if let Ok(rr) = g.test_timer() { g.set_rounds(rr); }
                }
                "clone" => { let mut c = g.clone(); c.next_u32(); let _ = format!("{:?}", c); }
                _ => panic!("harness: unknown op {}", o),
            }
        });
        r.eval();
        if let Err(c) = res {
            let n = timer.calls().min(timer.0.readings.len()).min(1700);
            return report_panic(&c, &entry, json!({
                "script_class": class, "rounds": rounds, "ops": ops, "op_index": i,
                "explicit": {"readings": timer.0.readings[..n].iter().map(|v| v.to_string()).collect::<Vec<_>>(),
                             "tail_seed": timer.0.tail_seed.to_string(), "rounds": rounds, "ops": ops}}), sub, id, r);
        }
        r.cov(&format!("jitter_op:{}", entry));
    }
    r.cov(&format!("jitter_script_class:{}", class));
    r.distinct(hkey(&[&"jitter", &id, &ops.join(",")]));
}

fn jitter_case(sub: &str, id: u64, explicit: Option<&Value>, r: &mut Report) {
    if let Some(e) = explicit {
        match jitter_ops_from(e) {
            Some((readings, tail, rounds, ops)) => jitter_run(readings, tail, rounds, &ops, "explicit", sub, id, r),
            None => r.inconclusive("unparsable explicit case".into()),
        }
        return;
    }
    let mut p = Prng::new(id);
    let class = p.below(SCRIPT_CLASSES.len() as u64) as usize;
    let with_tt = p.chance(1, 4);
    let n = if with_tt { 1700 + p.below(400) as usize } else { p.range(32, 600) as usize };
    let readings = if with_tt && p.chance(1, 2) {
        // test_timer-shaped scripts incl. the threshold classes of C13
        super::jit::c13_script(&mut p)
    } else {
        gen_script(&mut p, class, n)
    };
    let mut rounds = *p.pick(&[1u8, 1, 2, 3, 8, 64, 255]);
    let mut readings = readings;
    let mut class_name = SCRIPT_CLASSES[class];
    // one history in ten starts with a collection SOLVED (GF(2)) to give a rare word:
    // 0, all ones, a zero half (assertions / sentinel values on the collected word)
    if !with_tt && p.chance(1, 10) {
        rounds = *p.pick(&[2u8, 3, 5]);
        let t = super::jit::pick_target(&mut p, 0, rounds);
        let start = 1_000_000 + p.below(1 << 40);
        if let Some(sv) = solve_collection(&mut p, 0, rounds, start, t) {
            readings = sv;
            class_name = "solved";
            r.cov(&format!("solved_first_word:{}", t.name()));
        }
    }
    let mut ops: Vec<String> = Vec::new();
    if with_tt {
        ops.push("test_timer".into());
    }
    for _ in 0..(if rounds >= 64 { p.range(1, 3) } else { p.range(2, 12) }) {
        let o: JOp = match p.below(12) {
            0..=3 => JOp::U32,
            4..=6 => JOp::U64,
            7 | 8 => JOp::Fill(if rounds >= 64 { p.below(9) } else { p.below(40) } as usize),
            9 => JOp::Stats(p.chance(1, 2)),
            10 => JOp::Rounds(p.range(1, if rounds >= 64 { 255 } else { 12 }) as u8),
            _ => JOp::Clone,
        };
        ops.push(o.show());
    }
    jitter_run(readings, p.u64(), rounds, &ops, class_name, sub, id, r);
}

/// two consecutive hostile deltas (first and second differences at the i32 limits)
fn jitter_edge_case(sub: &str, id: u64, r: &mut Report) {
    let mut p = Prng::new(id);
    let edges: [u64; 10] = [0x7fff_ffff, 0x8000_0000, 0x8000_0001, 0xffff_ffff, 1, 2, 0x7fff_fffe, 0xc000_0000, 0x4000_0000, 0xffff_fffe];
    let mut readings = Vec::new();
    let mut t: u64 = if p.chance(1, 2) { 1000 } else { p.u64() };
    readings.push(t);
    // a measurement consumes 3 readings; only the middle one is the time stamp
    for _ in 0..p.range(4, 40) {
        let d = *p.pick(&edges);
        let d = if p.chance(1, 4) { d.wrapping_neg() } else { d };
        readings.push(t);
        t = t.wrapping_add(d);
        readings.push(t);
        readings.push(t);
    }
    let ops: Vec<String> = vec![p.pick(&["u64", "u32", "fill(9)"]).to_string(), "u32".into()];
    jitter_run(readings, p.u64(), *p.pick(&[1u8, 2, 3]), &ops, "edge_deltas", sub, id, r);
}

/// JitterRng::new() on the platform clock (non-deterministic values; only
/// "no panic" is decided here)
fn real_clock_case(sub: &str, id: u64, r: &mut Report) {
    let mut p = Prng::new(id);
    let res = guarded(|| {
        let mut g = match JitterRng::new() { Ok(g) => g, Err(_) => return false };
        for _ in 0..p.range(1, 6) {
            match p.below(7) {
                0 => { g.next_u32(); }
                1 => { g.next_u64(); }
                2 => { let mut b = vec![0u8; p.below(40) as usize]; g.fill_bytes(&mut b); }
                3 => { g.timer_stats(p.chance(1, 2)); }
                4 => { if let Ok(rr) = g.test_timer() { g.set_rounds(rr); } }
                5 => { g.set_rounds(1 + p.below(4) as u8); }
                _ => { let _ = format!("{:?}", g); }
            }
        }
        true
    });
    r.eval();
    match res {
        Ok(true) => { r.cov("real_clock_instances"); r.distinct(hkey(&[&"real_clock", &id])); }
        Ok(false) => r.cov("real_clock_timer_rejected"),
        Err(c) => report_panic(&c, "JitterRng::new()+ops", json!({"note": "platform clock; not replayable bit for bit"}), sub, id, r),
    }
}

/// states installed through serde (counters near their wrap, arbitrary words,
/// read index anywhere incl. beyond the buffer), then ordinary operations
fn crafted_case(sub: &str, id: u64, r: &mut Report) {
    use rand_core::block::{BlockRng, BlockRng64, BlockRngCore};
    let mut p = Prng::new(id);
    let which = p.below(4);
    let res = guarded(|| {
        match which {
            0 => {
                let mut img = p.bytes(259 * 4);
                let c = u32::MAX - p.below(3) as u32;
                img[258 * 4..].copy_from_slice(&c.to_le_bytes());
                let mut core: rand_isaac::isaac::IsaacCore = bincode::deserialize(&img).unwrap();
                let mut out = <rand_isaac::isaac::IsaacCore as BlockRngCore>::Results::default();
                for _ in 0..5 { core.generate(&mut out); }
                let mut w = BlockRng::new(core);
                for _ in 0..600 { w.next_u32(); }
                w.next_u64();
                let mut b = vec![0u8; 3000];
                w.fill_bytes(&mut b);
            }
            1 => {
                let mut img = p.bytes(259 * 8);
                let c = u64::MAX - p.below(3);
                img[258 * 8..].copy_from_slice(&c.to_le_bytes());
                let mut core: rand_isaac::isaac64::Isaac64Core = bincode::deserialize(&img).unwrap();
                let mut out = <rand_isaac::isaac64::Isaac64Core as BlockRngCore>::Results::default();
                for _ in 0..5 { core.generate(&mut out); }
                let mut w = BlockRng64::new(core);
                for _ in 0..600 { w.next_u32(); }
                w.next_u64();
                let mut b = vec![0u8; 3000];
                w.fill_bytes(&mut b);
            }
            2 => {
                // IsaacRng image: results (256 x u32), index (u64), core (259 x u32)
                let g0 = rand_isaac::IsaacRng::from_seed(p.bytes(32).try_into().unwrap());
                let mut img = bincode::serialize(&g0).unwrap();
                let idx = *p.pick(&[0u64, 1, 255, 256]);
                img[1024..1032].copy_from_slice(&idx.to_le_bytes());
                let n = img.len();
                img[n - 4..].copy_from_slice(&(u32::MAX - p.below(2) as u32).to_le_bytes());
                if let Ok(mut g) = bincode::deserialize::<rand_isaac::IsaacRng>(&img) {
                    for _ in 0..700 { g.next_u32(); }
                    g.next_u64();
                    let mut b = vec![0u8; 2100];
                    g.fill_bytes(&mut b);
                    let _ = format!("{:?}", g.clone());
                }
            }
            _ => {
                // small generators: arbitrary state images incl. all-zero
                let img = if p.chance(1, 3) { vec![0u8; 64] } else { p.bytes(64) };
                macro_rules! go { ($t:ty, $n:expr) => { if let Ok(mut g) = bincode::deserialize::<$t>(&img[..$n]) { g.next_u32(); g.next_u64(); let mut b = [0u8; 37]; g.fill_bytes(&mut b); let _ = g == g.clone(); } } }
                go!(rand_xoshiro::Xoroshiro64Star, 8);
                go!(rand_xoshiro::Xoroshiro128PlusPlus, 16);
                go!(rand_xoshiro::Xoshiro256StarStar, 32);
                go!(rand_xoshiro::Xoshiro512Plus, 64);
                go!(rand_xoshiro::SplitMix64, 8);
                go!(rand_xorshift::XorShiftRng, 16);
                if let Ok(mut g) = bincode::deserialize::<rand_xoshiro::Xoshiro256PlusPlus>(&img[..32]) { g.jump(); g.long_jump(); }
                if let Ok(mut g) = bincode::deserialize::<rand_xoshiro::Xoshiro512StarStar>(&img[..64]) { g.jump(); g.long_jump(); }
            }
        }
    });
    r.eval();
    match res {
        Ok(()) => { r.cov(&format!("crafted_state:{}", which)); r.distinct(hkey(&[&"crafted", &id])); }
        Err(c) => report_panic(&c, "operations_on_deserialized_state", json!({"which": which, "note": "state installed through the crate's serde implementation (counter near wrap / arbitrary words)"}), sub, id, r),
    }
}

/// snapshots with a wrong shape (arrays too long / too short, truncated or extended
/// byte images, wrong element types): deserialization must answer with an error,
/// never panic or index out of bounds
fn malformed_case(sub: &str, id: u64, r: &mut Report) {
    let mut p = Prng::new(id);
    fn mutate(v: &mut Value, p: &mut Prng, depth: u32) {
        match v {
            Value::Array(a) => {
                match p.below(6) {
                    0 => { let extra = p.range(1, 3); for _ in 0..extra { a.push(json!(p.u32())); } }
                    1 => { let k = p.range(1, 3) as usize; let n = a.len().saturating_sub(k); a.truncate(n); }
                    2 => { if !a.is_empty() { let i = p.below(a.len() as u64) as usize; a[i] = json!("x"); } }
                    3 => { if !a.is_empty() { let i = p.below(a.len() as u64) as usize; a[i] = json!(-1); } }
                    4 => { a.clear(); }
                    _ => { let n = a.len(); for _ in 0..n { a.push(json!(0)); } }
                }
            }
            Value::Object(o) => {
                let keys: Vec<String> = o.keys().cloned().collect();
                if keys.is_empty() { return; }
                let k = &keys[p.below(keys.len() as u64) as usize];
                if depth < 3 && p.chance(2, 3) {
                    mutate(o.get_mut(k).unwrap(), p, depth + 1);
                } else if p.chance(1, 2) {
                    o.remove(k);
                } else {
                    o.insert(k.clone(), json!(u64::MAX));
                }
            }
            other => { *other = if p.chance(1, 2) { json!([1, 2, 3]) } else { json!(18446744073709551615u64) }; }
        }
    }
    macro_rules! attack {
        ($t:ty, $make:expr) => {{
            let g: $t = $make;
            let mut v = serde_json::to_value(&g).unwrap();
            mutate(&mut v, &mut p, 0);
            let text = v.to_string();
            let res = guarded(|| serde_json::from_str::<$t>(&text).is_ok());
            r.eval();
            if let Err(c) = res {
                return report_panic(&c, "deserialize(json)", json!({"type": stringify!($t), "json_prefix": text.chars().take(200).collect::<String>()}), sub, id, r);
            }
            let mut b = bincode::serialize(&g).unwrap();
            match p.below(3) { 0 => { let n = b.len().saturating_sub(p.range(1, 9) as usize); b.truncate(n); } 1 => { b.extend(p.bytes(9)); } _ => { let i = p.below(b.len() as u64) as usize; b[i] ^= 0xff; } }
            let res = guarded(|| bincode::deserialize::<$t>(&b).map(|mut g| { g.next_u32(); g.next_u64(); let mut x = [0u8; 5]; g.fill_bytes(&mut x); }).is_ok());
            r.eval();
            if let Err(c) = res {
                return report_panic(&c, "deserialize(bincode)+use", json!({"type": stringify!($t), "image_len": b.len()}), sub, id, r);
            }
        }};
    }
    let seed32: [u8; 32] = p.bytes(32).try_into().unwrap();
    match p.below(8) {
        0 => attack!(rand_isaac::IsaacRng, rand_isaac::IsaacRng::from_seed(seed32)),
        1 => attack!(rand_isaac::Isaac64Rng, rand_isaac::Isaac64Rng::from_seed(seed32)),
        2 => attack!(rand_core::block::BlockRng<rand_isaac::isaac::IsaacCore>, rand_core::block::BlockRng::new(rand_isaac::isaac::IsaacCore::from_seed(seed32))),
        3 => attack!(rand_core::block::BlockRng64<rand_isaac::isaac64::Isaac64Core>, rand_core::block::BlockRng64::new(rand_isaac::isaac64::Isaac64Core::from_seed(seed32))),
        4 => attack!(rand_xorshift::XorShiftRng, rand_xorshift::XorShiftRng::from_seed(seed32[..16].try_into().unwrap())),
        5 => attack!(rand_xoshiro::Xoshiro256PlusPlus, rand_xoshiro::Xoshiro256PlusPlus::from_seed(seed32)),
        6 => attack!(rand_xoshiro::Xoroshiro64Star, rand_xoshiro::Xoroshiro64Star::from_seed(seed32[..8].try_into().unwrap())),
        _ => attack!(rand_xoshiro::Xoshiro512StarStar, rand_xoshiro::Xoshiro512StarStar::seed_from_u64(p.u64())),
    }
    r.cov("malformed_snapshots");
    r.distinct(hkey(&[&"malformed", &id]));
}

fn case(sub: &str, id: u64, explicit: Option<&Value>, r: &mut Report) {
    match sub {
        "malformed" => malformed_case(sub, id, r),
        "crafted" => crafted_case(sub, id, r),
        "real_clock" => real_clock_case(sub, id, r),
        "jitter" => jitter_case(sub, id, explicit, r),
        "jitter_edges" => jitter_edge_case(sub, id, r),
        _ => {
            let ti = Prng::new(id ^ 0x1414).below(N_TYPES as u64) as usize;
            with_spec!(ti, S => seeded_case::<S>(sub, id, r));
        }
    }
}

pub fn run(ctx: &Ctx, only: Option<&Only>) -> Report {
    if let Some(o) = only {
        let mut r = Report::new();
        let sub = o.sub.to_string();
        let ex = o.explicit.cloned();
        run_case(o.sub, o.id, &mut r, &|id, r: &mut Report| case(&sub, id, ex.as_ref(), r));
        return r;
    }
    let secs = if ctx.tier_thorough { ctx.budget_s } else { 0.0 };
    let mut total = drive(ctx, "seeded", 40_000, secs * 0.4, |id, r| case("seeded", id, None, r));
    total.merge(drive(ctx, "jitter", 8_000, secs * 0.4, |id, r| case("jitter", id, None, r)));
    total.merge(drive(ctx, "jitter_edges", 8_000, secs * 0.2, |id, r| case("jitter_edges", id, None, r)));
    total.merge(drive(ctx, "real_clock", 48, 0.0, |id, r| case("real_clock", id, None, r)));
    total.merge(drive(ctx, "crafted", 2_000, 0.0, |id, r| case("crafted", id, None, r)));
    total.merge(drive(ctx, "malformed", 4_000, 0.0, |id, r| case("malformed", id, None, r)));
    if ctx.scale >= 1.0 {
        for n in TYPE_NAMES {
            total.floor(&format!("type:{}", n), 50);
        }
        for o in ["u32", "u64", "fill", "timer_stats", "set_rounds", "test_timer", "clone"] {
            total.floor(&format!("jitter_op:{}", o), 50);
        }
        for c in SCRIPT_CLASSES {
            total.floor(&format!("jitter_script_class:{}", c), 10);
        }
        total.floor("jitter_script_class:edge_deltas", 100);
    }
    total
}
