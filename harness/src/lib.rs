//! Runtime monitors for rust-random/rngs. See /verif/DESIGN.md.
#![cfg(all(feature = "serde", rngs_verif))]
pub mod util;
pub mod models {
    pub mod gf2;
    pub mod hc128;
    pub mod isaac;
    pub mod jitter;
    pub mod vigna;
}
pub mod drive;
pub mod specs;
pub mod monitors;
